"""C03 — every export is a well-formed, loadable ONNX model."""

from __future__ import annotations

import numpy as np

from vf.core import Acc, derive_seed, digest

PROPERTY = "C03"
LEVEL = "exploration"
RULE = (
    "programs: registered testcases (seeded sample in quick, all in thorough; float32 and float64 variants), Hypothesis-generated control-flow "
    "programs (nesting<=3), histories of @onnx_function call sites (plain/unique, nested), and generated compositions; x configurations drawn "
    "jointly: opset 21..26, enable_double_precision, symbolic vs static dims, custom input/output names, return_mode proto/ir. Oracle (all must hold "
    "for whatever to_onnx returns): onnx.checker full_check, strict shape inference, ORT session creation (missing-kernel errors are environment "
    "limits), and an independent scope walk: every name defined once per scope before use, subgraphs reference only enclosing-scope names, graph "
    "outputs defined, every non-standard-domain call resolves to a FunctionProto with equal arity and imported domain, function bodies are SSA "
    "with no free names, every function is referenced. non-trivial = model has a subgraph or a function or a non-default configuration; distinct "
    "by (program digest, configuration)."
)
ASSUMPTIONS = [
    "onnx.checker / strict shape inference of the installed onnx (1.22) define validity; ORT 1.30 CPU defines loadability",
    "ORT NOT_IMPLEMENTED (missing kernel) and opset-under-development refusals are environment limits, recorded, not violations",
    "a to_onnx call that raises returns no model: counted as rejected",
]


def _features(model):
    import onnx

    def has_sub(nodes):
        return any(a.type in (onnx.AttributeProto.GRAPH, onnx.AttributeProto.GRAPHS) for n in nodes for a in n.attribute)

    return {"subgraph": has_sub(model.graph.node) or any(has_sub(f.node) for f in model.functions), "functions": len(model.functions)}


def check_model(model, sigbase, case, acc=None, cfg_nondefault=False, key=None):
    import onnx_ir as ir
    from vf import scopewalk

    if not hasattr(model, "graph") or not hasattr(model, "SerializeToString"):
        model = ir.to_proto(model)
    probs, env = scopewalk.validity(model)
    ft = _features(model)
    if acc:
        acc.case(key=key, nontrivial=bool(ft["subgraph"] or ft["functions"] or cfg_nondefault))
        if ft["subgraph"]:
            acc.count("models_with_subgraph")
        if ft["functions"]:
            acc.count("models_with_functions")
        for e in env:
            acc.tally("environment_limits", e[:90])
    out = []
    seen = set()
    for check, text in probs:
        if check in seen:
            continue
        seen.add(check)
        import re

        m = re.search(r"op_type:\s*(\w+)|OpType:\s*(\w+)|No Op registered for (\w+)|node #\d+ (\w+)|of operator \((\w+)\)|Optype \((\w+)\)|\(node_([A-Za-z]+)_\d+\)", text)
        op = next((g for g in (m.groups() if m else []) if g), "?")
        low = text.lower()
        cause = ("mixed_float_double" if ("tensor(float) and tensor(double)" in low or "inconsistent type tensor(double)" in low or "inconsistent type tensor(float)" in low)
                 else "elem_type_differs" if "elem type differs" in low or "inferred elem type" in low
                 else "no_op_registered" if "no op registered" in low
                 else "type_not_supported_by_operator" if ("has unsupported type" in low or ("of operator" in low and "is invalid" in low)) else "other")
        sig = {k: v for k, v in dict(sigbase, check=check, op=op, cause=cause).items() if k != "config"}
        out.append({"sig": sig, "case": case, "detail": (f"[config {sigbase['config']}] " if "config" in sigbase else "") + text})
    return out


# ---------------------------------------------------------------- catalog


def check_catalog(cid, double, opset, acc=None):
    from vf import catalog, jaxutil

    case = catalog.by_id(cid)
    p = catalog.prepare(case, double=double) if case else None
    if p is None:
        return []
    kw = dict(p.kw)
    authored_opset = kw.get("opset")
    if opset is not None and (authored_opset is None or opset >= authored_opset):
        kw["opset"] = opset
    try:
        with jaxutil.x64(double):
            model = jaxutil.to_onnx(p.fn, p.specs, **kw)
    except Exception as e:
        if acc:
            acc.tally("catalog", "export_raised")
            acc.tally("rejected_reasons", f"{type(e).__name__}: {str(e)[:70]}")
            acc.case()
        return []
    if model.ByteSize() > 200_000_000:
        return []
    sigbase = {"layer": "catalog", "component": f"{case['context']}/{case['component']}"}
    cfg = {"double": double, "opset": kw.get("opset")}
    return check_model(model, sigbase, {"kind": "catalog", "id": cid, "double": double, "opset": opset}, acc,
                       cfg_nondefault=bool(double or kw.get("opset")), key=("catalog", cid, double, kw.get("opset")))


def _work_catalog(sh, acc):
    import time

    t0 = time.monotonic()
    for k, (cid, double, opset) in enumerate(sh["items"]):
        if time.monotonic() - t0 > sh.get("budget_s", 1e9):
            acc.inconclusive += len(sh["items"]) - k
            break
        t1 = time.monotonic()
        vs = check_catalog(cid, double, opset, acc)
        acc.timed(cid, time.monotonic() - t1)
        if not vs and len(acc.samples) < 1:
            acc.samples.append({"catalog_id": cid, "double": double, "opset": opset})
        for v in vs:
            acc.violation(v["sig"], v["case"], v["detail"])


# ---------------------------------------------------------------- generated


def gen_case_strategy():
    from hypothesis import strategies as st
    from vf import blocks, progen
    from vf.props import c06

    cfg = st.fixed_dictionaries({
        "opset": st.sampled_from([None, 21, 22, 23, 24, 25, 26]),
        "double": st.booleans(),
        "names": st.booleans(),
        "ir": st.booleans(),
        "sym": st.booleans(),
    })
    cf = st.tuples(st.just("cf"), c06.body_strategy(3, unsupported_p=10**6), st.booleans())
    from vf.props import c07

    hist = st.tuples(st.just("hist"), c07.history_strategy(), st.sampled_from(["fn", "uniq"]))
    prog = st.tuples(st.just("prog"), progen.programs(max_stmts=7), st.just(None))
    mixed = st.tuples(st.just("mixed"), c06.body_strategy(2, unsupported_p=10**6), st.lists(blocks.site_strategy(), min_size=1, max_size=3))
    return st.tuples(st.one_of(cf, hist, prog, mixed), cfg)


def build_generated(kind, a, b, cfg):
    """Returns (fn, specs, kw)."""
    import jax
    import jax.numpy as jnp
    from vf import blocks, progen
    from vf.props import c06

    S = jax.ShapeDtypeStruct
    fdt = np.float64 if cfg["double"] else np.float32
    kw = {}
    if cfg["opset"]:
        kw["opset"] = cfg["opset"]
    if cfg["double"]:
        kw["enable_double_precision"] = True
    if cfg["ir"]:
        kw["return_mode"] = "ir"
    if kind == "cf":
        fn = c06.make_fn(a, b)
        specs = [S((3,), fdt), S(("T" if cfg["sym"] else 2, 3), fdt), S((), np.int32), S((), np.bool_)]
        nout = 2 if b else 1
    elif kind == "hist":
        from vf.props import c07

        fn = c07.build(a, b)
        specs = [S(("B" if cfg["sym"] else 3, 4), fdt)]
        nout = 1
    elif kind == "mixed":
        inner = blocks.build(b, "fn")
        body = c06.make_fn(a, False)

        def fn(x, y, n, p):
            h = inner(y)  # [T,4] through function call sites
            return body(x, h[:, :3], n, p) + jnp.sum(h) * 0.01

        specs = [S((3,), fdt), S(("T" if cfg["sym"] else 2, 4), fdt), S((), np.int32), S((), np.bool_)]
        nout = 1
    else:
        fn = progen.build(a)
        specs = progen.input_specs_for_export(a, double=cfg["double"])
        nout = len(a["outputs"])
    if cfg["names"]:
        kw["input_names"] = [f"arg_{i}" for i in range(len(specs))]
        kw["output_names"] = [f"res_{i}" for i in range(nout)]
    return fn, specs, kw


def check_generated(kind, a, b, cfg, acc=None):
    from vf import jaxutil

    case = {"kind": "generated", "gk": kind, "a": a, "b": b, "cfg": cfg}
    try:
        fn, specs, kw = build_generated(kind, a, b, cfg)
        with jaxutil.x64(cfg["double"]):
            model = jaxutil.to_onnx(fn, specs, **kw)
    except Exception as e:
        if acc:
            acc.tally("generated", f"{kind}_export_raised")
            acc.tally("rejected_reasons", f"{type(e).__name__}: {str(e)[:70]}")
            acc.case()
        return []
    if acc:
        acc.tally("generated", f"{kind}_exported")
    nondefault = any(cfg[k] for k in ("opset", "double", "names", "ir", "sym"))
    cfgclass = "+".join(k for k in ("opset", "double", "names", "ir", "sym") if cfg[k]) or "default"
    sigbase = {"layer": "generated", "structure": kind, "double": bool(cfg["double"]), "config": cfgclass}
    if kind in ("cf", "mixed"):
        from vf.props import c06

        sigbase["nesting"] = c06.nesting_string(a)
    return check_model(model, sigbase, case, acc, cfg_nondefault=nondefault,
                       key=("gen", digest([kind, a, b]), digest(cfg)))


def _work_generated(sh, acc):
    import hypothesis
    from hypothesis import HealthCheck, Phase, given, settings

    @hypothesis.seed(derive_seed(sh["seed"], "c03gen", sh["shard"]))
    @settings(max_examples=sh["examples"], deadline=None, database=None, suppress_health_check=list(HealthCheck),
              phases=[Phase.generate], report_multiple_bugs=False)
    @given(gen_case_strategy())
    def t(c):
        (kind, a, b), cfg = c
        for k, v in cfg.items():
            if v:
                acc.tally("config", f"{k}={v if k == 'opset' else True}")
        vs = check_generated(kind, a, b, cfg, acc)
        if not vs and len(acc.samples) < 2:
            acc.samples.append({"structure": kind, "config": cfg, "program": str(a)[:300]})
        for v in vs:
            acc.violation(v["sig"], v["case"], v["detail"])

    t()


def list_ids(_):
    from vf import catalog

    return [c["id"] for c in catalog.cases() if c["tc"].get("callable") is not None]


def plan(tier, seed):
    from vf import core

    res = list(core.run_pool("vf.props.c03", "list_ids", [{}], nproc=1))[0]
    if not res["ok"]:
        raise RuntimeError(res["tb"])
    ids = res["res"]
    rng = np.random.default_rng(seed)
    items = []
    if tier == "quick":
        pick = sorted(rng.choice(len(ids), size=min(240, len(ids)), replace=False).tolist())
        for i in pick:
            items.append([ids[i], bool(rng.integers(0, 2)), [None, 21, 23, 25, 26][int(rng.integers(0, 5))]])
        nsh, budget = 16, 150
    else:
        for cid in ids:
            items.append([cid, False, None])
            items.append([cid, True, None])
            items.append([cid, False, [21, 22, 24, 25, 26][int(rng.integers(0, 5))]])
        nsh, budget = 64, 400
    shards = [{"kind": "catalog", "items": items[i::nsh], "budget_s": budget} for i in range(nsh)]
    n = 16 if tier == "quick" else 48
    shards += [{"kind": "generated", "shard": i, "seed": seed, "examples": 12 if tier == "quick" else 70} for i in range(n)]
    return shards


def work(sh):
    acc = Acc()
    {"catalog": _work_catalog, "generated": _work_generated}[sh["kind"]](sh, acc)
    return acc.to_dict()


def special_programs():
    """Hand-written repro programs of recorded findings that the grammars cannot express (replayed every run, never generated)."""
    import jax.numpy as jnp

    return {
        # found through C07's dtype-varying call sites: a float16 value requested by the callable itself meets the float policy
        "abs_after_astype_float16": (lambda x: jnp.abs(x.astype(jnp.float16)).astype(jnp.float32), [((3, 4), np.float32)], False),
        # found by the type-promotion family of the program grammar in a double-precision configuration
        "std_of_int_double": (lambda x: jnp.std(jnp.clip(x, -100, 100)), [((2, 3), np.int32)], True),
        "var_of_int_double": (lambda x: jnp.var(jnp.clip(x, -100, 100), axis=-1), [((2, 3), np.int32)], True),
    }


def check_special(name):
    import jax
    from vf import jaxutil

    fn, specs, double = special_programs()[name]
    with jaxutil.x64(double):
        model = jaxutil.to_onnx(fn, [jax.ShapeDtypeStruct(s, d) for s, d in specs], **({"enable_double_precision": True} if double else {}))
    return check_model(model, {"layer": "special", "program": name}, {"kind": "special", "name": name}, None)


def replay(case):
    if case["kind"] == "special":
        return check_special(case["name"])
    if case["kind"] == "catalog":
        return check_catalog(case["id"], case["double"], case["opset"], None)
    return check_generated(case["gk"], case["a"], case["b"], case["cfg"], None)
