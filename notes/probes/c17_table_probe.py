import numpy as np, onnx_ir as ir, ml_dtypes, warnings, itertools
warnings.filterwarnings("ignore")
from jax2onnx.converter.ir_optimizations import _cast_roundtrip_is_value_preserving as dec
types=list(ir.DataType)
print(len(types),[t.name for t in types])
acc=[(s,u) for s in types for u in types if s!=u and dec(int(s.value),int(u.value))]
print("accepted non-identity pairs:",len(acc))
def npdt(t):
    try: return np.dtype(t.numpy())
    except Exception as e: return None
def all_values(dt):
    bits=dt.itemsize*8
    if dt==np.bool_: return np.array([False,True])
    if dt.kind in "iu" and dt.itemsize<=2: return np.arange(np.iinfo(dt).min,np.iinfo(dt).max+1,dtype=np.int64).astype(dt)
    if dt.itemsize==1 and dt.kind not in "iub": return np.arange(256,dtype=np.uint8).view(dt)
    if dt.itemsize==2 and dt.kind not in "iu": return np.arange(65536,dtype=np.uint16).view(dt)
    return None
bad=[];checked=0;skipped=[]
for s,u in acc:
    ds,du=npdt(s),npdt(u)
    if ds is None or du is None: skipped.append((s.name,u.name,"no numpy dtype")); continue
    vals=all_values(ds)
    if vals is None: skipped.append((s.name,u.name,"large")); continue
    with np.errstate(all="ignore"):
        try: rt=vals.astype(du).astype(ds)
        except TypeError: rt=vals.astype(np.int64).astype(du).astype(np.int64).astype(ds)
    a=vals.view(np.uint8).reshape(len(vals),-1) if ds!=np.bool_ else vals.astype(np.uint8).reshape(-1,1)
    b=rt.view(np.uint8).reshape(len(rt),-1) if ds!=np.bool_ else rt.astype(np.uint8).reshape(-1,1)
    same=(a==b).all(axis=1)
    if ds.kind not in "iub":
        nan=np.isnan(vals.astype(np.float64)) & np.isnan(rt.astype(np.float64))
        same=same|nan
    checked+=1
    if not same.all(): bad.append((s.name,u.name,int((~same).sum()),str(vals[~same][:3])))
print("exhaustively checked pairs (<=16 bit src):",checked,"violations:",bad)
import collections
print("skipped:",collections.Counter(x[2] for x in skipped), [x[:2] for x in skipped if x[2]!="large"][:10])
print("BOOL is_integer:", ir.DataType.BOOL.is_integer(), "INT4:", ir.DataType.INT4.is_integer(), ir.DataType.INT4.bitwidth)
