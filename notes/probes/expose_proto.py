import sys, warnings, copy
warnings.filterwarnings("ignore")
sys.path.insert(0,'/tmp/scratch_repo')
import numpy as np, jax, jax.numpy as jnp, onnx
from onnx import helper as h, TensorProto as TP
from jax import lax
import logging; logging.disable(logging.CRITICAL)
from jax2onnx import to_onnx, onnx_function
import onnxruntime as ort
ort.set_default_logger_severity(4)
NP={1:np.float32,6:np.int32,7:np.int64,9:np.bool_,11:np.float64,10:np.float16,2:np.uint8,3:np.int8,5:np.int16,12:np.uint32}
def expose(model):
    """Return (new_model, observed) where observed maps new top-level output name -> (declared ValueInfo, scope, loop_depth)."""
    m=copy.deepcopy(model)
    try: m=onnx.inliner.inline_local_functions(m)   # function bodies -> top level (value_info inside functions is lost unless carried)
    except Exception as e: print("inline failed",e)
    observed={}
    counter=[0]
    def process(g, scope, depth):
        """exposes annotated values of g; returns list of (name_in_g, declared_vi, scope, depth) newly made outputs of g"""
        new=[]
        produced={o for n in g.node for o in n.output}
        existing={o.name for o in g.output}
        ann={vi.name:vi for vi in g.value_info}
        # recurse first into Loop bodies
        for n in list(g.node):
            if n.op_type=="Loop":
                body=[a for a in n.attribute if a.name=="body"][0].g
                inner=process(body, scope+"/Loop", depth+1)
                for (iname,vi,sc,dp) in inner:
                    counter[0]+=1
                    oname=f"__obs{counter[0]}"
                    n.output.append(oname)           # new scan output of the Loop node
                    new.append((oname,vi,sc,dp))
        for name,vi in ann.items():
            if name in existing or name not in produced: continue
            if not vi.type.HasField("tensor_type"): continue
            new.append((name,vi,scope,depth))
        # make them outputs of g
        for (name,vi,sc,dp) in new:
            if name in existing: continue
            out=onnx.ValueInfoProto(); out.name=name
            out.type.tensor_type.elem_type=vi.type.tensor_type.elem_type   # rank-free declaration for the carrier output
            g.output.append(out); existing.add(name)
        return new
    top=process(m.graph,"top",0)
    for (name,vi,sc,dp) in top: observed[name]=(vi,sc,dp)
    return m, observed
def check(model, feeds):
    m2,obs=expose(model)
    s0=ort.InferenceSession(model.SerializeToString()); ref=s0.run(None,feeds)
    s=ort.InferenceSession(m2.SerializeToString())
    names=[o.name for o in s.get_outputs()]
    got=dict(zip(names,s.run(None,feeds)))
    # self-check: original outputs unchanged
    for o,r in zip(model.graph.output,ref): assert np.array_equal(got[o.name],r,equal_nan=True),"expose changed semantics"
    probs=[];n=0;by_scope={}
    for name,(vi,sc,dp) in obs.items():
        g=got[name]; tt=vi.type.tensor_type; n+=1; by_scope[sc]=by_scope.get(sc,0)+1
        if tt.elem_type in NP and np.dtype(NP[tt.elem_type])!=g.dtype: probs.append((name,vi.name,sc,"dtype",tt.elem_type,str(g.dtype)))
        if tt.HasField("shape"):
            rt=g.shape[dp:]   # strip one leading axis per enclosing Loop (scan-output stacking)
            if len(tt.shape.dim)!=len(rt): probs.append((name,vi.name,sc,"rank",len(tt.shape.dim),len(rt))); continue
            for ax,(d,r) in enumerate(zip(tt.shape.dim,rt)):
                if d.HasField("dim_value") and d.dim_value!=r and g.shape[:dp]!=(0,)*dp: probs.append((name,vi.name,sc,"dim",ax,d.dim_value,r))
    return n,by_scope,probs
@onnx_function
def blk(x): return jnp.tanh(x)@x.T+1
def p1(x,n):
    def body(c):
        v,i=c
        v2,ys=lax.scan(lambda a,b:(a*b+1,a.sum()),v,jnp.arange(3,dtype=jnp.float32))
        return v2+jnp.tanh(v2).sum(),i+1
    r=lax.while_loop(lambda c:c[1]<n,body,(x,jnp.int32(0)))
    return blk(r[0]),r[1]
S=jax.ShapeDtypeStruct
m=to_onnx(p1,[S((2,3),np.float32),S((),np.int32)])
for trip in (0,1,3):
    print("trip",trip,check(m,{"in_0":np.ones((2,3),np.float32),"in_1":np.asarray(trip,np.int32)}))
def p2(xs,c0): return lax.scan(lambda c,x:(c+x.sum(), jnp.outer(x,x)*c), c0, xs)
m=to_onnx(p2,[S(("T",2),np.float32),S((),np.float32)])
for T in (1,4): print("T",T,check(m,{"in_0":np.ones((T,2),np.float32),"in_1":np.asarray(1.5,np.float32)}))
