"""./check <Cxx> [--tier quick|thorough] [--replay FILE]"""
import argparse
import os
import sys
import traceback


def main(argv=None):
    ap = argparse.ArgumentParser()
    ap.add_argument("prop")
    ap.add_argument("--tier", default=os.environ.get("VERIF_TIER", "quick"), choices=["quick", "thorough"])
    ap.add_argument("--replay", default=None)
    ns = ap.parse_args(argv)
    try:
        seed = int(os.environ.get("VERIF_SEED", "1") or "1")
    except ValueError:
        seed = 1
    from vf import core

    try:
        return core.run_property(ns.prop.upper(), ns.tier, seed, ns.replay)
    except SystemExit:
        raise
    except BaseException:
        traceback.print_exc()
        sys.stderr.write("HARNESS ERROR (exit 2)\n")
        return 2


if __name__ == "__main__":
    sys.exit(main())
