"""C10 — JAX transformations commute with export."""

from __future__ import annotations

import numpy as np

from vf.core import Acc, derive_seed, digest

PROPERTY = "C10"
LEVEL = "exploration"
RULE = (
    "f from (i) registered testcases with static array-in/array-out signatures (seeded sample in quick, all in thorough) and (ii) Hypothesis-"
    "generated float compositions over the substituted library functions; T from {jit, jit(jit), inner jit of the callable inside a wrapper, vmap "
    "with generated in_axes/out_axes (leading, trailing, None entries), grad of the scalarised f, jvp, vjp, checkpoint, custom_jvp / custom_vjp "
    "wrappers whose rule is f's true derivative}. Oracle: eager T(f)(x) vs ORT(to_onnx(T(f))) under the C01 comparison policy; for the identity-"
    "like transforms (jit, nested jit, checkpoint) export must succeed whenever export of f succeeds. A trace-time raise for vmap/grad (missing "
    "rule) is a loud rejection, counted per primitive. non-trivial = (f,T) with T other than jit whose export returned a model and ran; distinct by "
    "(f id, T, axes)."
)
ASSUMPTIONS = [
    "eager JAX evaluation of the transformed function is the reference",
    "grad is taken of sum over all floating outputs (scalarisation); inputs are drawn away from non-differentiable points only by the normal pool",
]


def scal(fn):
    import jax
    import jax.numpy as jnp

    def g(*xs):
        out = jax.tree_util.tree_leaves(fn(*xs))
        return sum(jnp.sum(o.astype(jnp.float32)) for o in out if jnp.issubdtype(o.dtype, jnp.floating))

    return g


def transforms(nargs, float_first, axes_seed):
    """name -> (builder(fn) -> transformed fn, shape_map(shapes)->shapes)"""
    import jax
    import jax.numpy as jnp

    rng = np.random.default_rng(axes_seed)
    T = {}
    ident = lambda shapes: shapes
    T["jit"] = (lambda f: jax.jit(f), ident)
    T["jit_jit"] = (lambda f: jax.jit(lambda *a: jax.jit(f)(*a)), ident)
    T["inner_jit"] = (lambda f: (lambda *a: jax.tree_util.tree_map(lambda o: o, jax.jit(f)(*a))), ident)
    T["checkpoint"] = (lambda f: jax.checkpoint(f), ident)
    T["vmap_lead"] = (lambda f: jax.vmap(f), lambda shapes: [(2,) + tuple(s) for s in shapes])
    if nargs >= 2:
        # batch only the first argument
        T["vmap_first_only"] = (lambda f: jax.vmap(f, in_axes=(0,) + (None,) * (nargs - 1)), lambda shapes: [(2,) + tuple(shapes[0])] + [tuple(s) for s in shapes[1:]])
    T["vmap_trailing"] = (lambda f: jax.vmap(f, in_axes=-1), lambda shapes: [tuple(s) + (2,) for s in shapes])
    if nargs >= 2:
        # first operand batched at its last axis, the others unbatched (different batch placement per operand)
        T["vmap_mixed_axes"] = (lambda f: jax.vmap(f, in_axes=(-1,) + (None,) * (nargs - 1)), lambda shapes: [tuple(shapes[0]) + (2,)] + [tuple(s) for s in shapes[1:]])
    T["vmap_out_last"] = (lambda f: jax.vmap(f, in_axes=0, out_axes=-1), lambda shapes: [(2,) + tuple(s) for s in shapes])
    if float_first:
        T["grad"] = (lambda f: jax.grad(scal(f)), ident)
        T["jvp"] = (lambda f: (lambda *a: jax.jvp(scal(f), a[:1], (jnp.ones_like(a[0]),))[1] if nargs == 1 else jax.jvp(lambda x0: scal(f)(x0, *a[1:]), a[:1], (jnp.ones_like(a[0]),))[1]), ident)
        T["vjp"] = (lambda f: (lambda *a: jax.vjp(lambda x0: scal(f)(x0, *a[1:]), a[0])[1](jnp.float32(1.0))[0]), ident)

        if nargs >= 2:
            # differentiate w.r.t. a non-leading argument: the leading operands carry symbolic-zero tangents
            T["grad_last"] = (lambda f: jax.grad(scal(f), argnums=nargs - 1), ident)
            T["jvp_last"] = (lambda f: (lambda *a: jax.jvp(lambda z: scal(f)(*a[:-1], z), a[-1:], (jnp.ones_like(a[-1]),))[1]), ident)

        def cjvp(f):
            @jax.custom_jvp
            def g(x0, *rest):
                return scal(f)(x0, *rest)

            @g.defjvp
            def g_jvp(primals, tangents):
                x0, rest = primals[0], primals[1:]
                y, t = jax.jvp(lambda z: scal(f)(z, *rest), (x0,), (tangents[0],))
                return y, t

            return lambda *a: jax.grad(g)(*a)

        T["custom_jvp_grad"] = (cjvp, ident)

        def cvjp(f):
            @jax.custom_vjp
            def g(x0, *rest):
                return scal(f)(x0, *rest)

            def fwd(x0, *rest):
                y, vjp = jax.vjp(lambda z: scal(f)(z, *rest), x0)
                return y, (vjp, rest)

            def bwd(res, ct):
                vjp, rest = res
                return (vjp(ct)[0],) + tuple(jax.tree_util.tree_map(jnp.zeros_like, r) for r in rest)

            g.defvjp(fwd, bwd)
            return lambda *a: jax.grad(g)(*a)

        T["custom_vjp_grad"] = (cvjp, ident)
    return T


IDENTITY_LIKE = ("jit", "jit_jit", "inner_jit", "checkpoint")


def check_fn(fid, fn, shapes, dtypes, tnames, acc=None, sigbase=None, case=None, feed_seed=5, feed_mode=0):
    import jax
    import jax.numpy as jnp
    from vf import catalog, jaxutil

    out = []
    float_first = np.dtype(dtypes[0]).kind == "f" if dtypes else False
    T = transforms(len(shapes), float_first, 0)
    specs0 = [jax.ShapeDtypeStruct(tuple(s), d) for s, d in zip(shapes, dtypes)]
    base_ok, base_deviates = True, None
    try:
        m0 = jaxutil.to_onnx(fn, specs0)
    except Exception:
        base_ok = False
    if base_ok:
        # what the untransformed export already gets wrong (or ORT cannot run) belongs to C01 / C03: this property isolates the
        # effect of the transformation, so such callables are counted and skipped
        rng0 = np.random.default_rng(feed_seed)
        feeds0 = [catalog.draw_value(rng0, tuple(s), d, feed_mode) for s, d in zip(shapes, dtypes)]
        try:
            exp0 = jaxutil.flatten(fn(*[jnp.asarray(f) for f in feeds0]))
            got0 = jaxutil.run_model(m0, feeds0)
            st0, _ = jaxutil.compare_all(got0, exp0, None)
            if st0 not in ("ok", "trivial"):
                base_deviates = f"base_export_{st0}"
        except Exception as e:
            base_deviates = "base_not_runnable"
    if base_deviates:
        if acc:
            acc.tally("status", f"skipped:{base_deviates}")
            acc.case()
        return out
    for tname in tnames:
        if tname not in T:
            continue
        if tname in ("grad_last", "jvp_last") and np.dtype(dtypes[-1]).kind != "f":
            continue
        build, smap = T[tname]
        sh = smap([tuple(s) for s in shapes])
        rng = np.random.default_rng(feed_seed)
        feeds = [catalog.draw_value(rng, s, d, feed_mode) for s, d in zip(sh, dtypes)]
        try:
            tf = build(fn)
            exp = jaxutil.flatten(tf(*[jnp.asarray(f) for f in feeds]))
        except Exception as e:
            if acc:
                acc.tally("status", f"{tname}:jax_rejects")
            continue
        specs = [jax.ShapeDtypeStruct(s, d) for s, d in zip(sh, dtypes)]
        c = dict(case or {}, T=[tname])
        try:
            m = jaxutil.to_onnx(tf, specs)
        except Exception as e:
            if acc:
                acc.tally("status", f"{tname}:export_rejected")
                acc.tally("rejected_reasons", f"{tname}: {type(e).__name__}: {str(e)[:70]}")
                acc.case()
            if tname in IDENTITY_LIKE and base_ok:
                out.append({"sig": dict(sigbase or {}, transformation=tname, kind="identity_transform_breaks_export"), "case": c,
                            "detail": f"f exports, {tname}(f) raises {type(e).__name__}: {str(e)[:200]}"})
            continue
        try:
            got = jaxutil.run_model(m, feeds)
        except Exception as e:
            if acc:
                acc.tally("status", f"{tname}:ort_error")
            import re

            if "NOT_IMPLEMENTED" in str(e) or "Could not find an implementation" in str(e):
                # a kernel this ONNX Runtime build lacks (GlobalLpPool-22, Where on some types): environment, not converter
                if acc:
                    acc.tally("status", f"{tname}:ort_kernel_missing(inconclusive)")
                    acc.inconclusive += 1
                continue
            mm = re.search(r"No Op registered for (\w+)", str(e))
            sig = dict(sigbase or {}, transformation=tname, kind="ort_error", cause=(mm.group(1) + "_not_in_opset") if mm else "other")
            if mm:
                sig.pop("ops", None)
                sig.pop("testcase", None)
                sig.pop("component", None)
                sig.pop("layer", None)
                sig.pop("transformation", None)
            out.append({"sig": sig, "case": c, "detail": str(e)[:250]})
            continue
        ref64 = None
        try:
            with jaxutil.x64(True):
                ref64 = jaxutil.flatten(build(fn)(*[jnp.asarray(f.astype(np.float64) if f.dtype.kind == "f" else f) for f in feeds]))
            if len(ref64) != len(exp):
                ref64 = None
        except Exception:
            ref64 = None
        st_, d = jaxutil.compare_all(got, exp, ref64)
        if acc:
            acc.case(key=("T", fid, tname), nontrivial=(tname != "jit" and st_ == "ok"))
            acc.tally("status", f"{tname}:{st_}")
        if st_ not in ("ok", "trivial"):
            fam = "vmap" if tname.startswith("vmap") else ("identity" if tname in IDENTITY_LIKE else "autodiff")
            sg = dict(sigbase or {}, transformation=tname, family=fam, kind=st_)
            sg.pop("ops", None)
            out.append({"sig": sg, "case": c, "detail": f"{tname}: {d}"})
    return out


def check_catalog(cid, tnames, acc=None):
    import jax.numpy as jnp
    from vf import catalog

    case = catalog.by_id(cid)
    if case is None:
        return []
    tc = case["tc"]
    if (tc.get("skip_numeric_validation") or tc.get("run_only_f64_variant") or tc.get("enable_double_precision") or tc.get("input_params")
            or tc.get("inputs_as_nchw") or tc.get("outputs_as_nchw") or str(case["context"]).startswith("examples")):
        return []
    shapes, dts = tc.get("input_shapes"), tc.get("input_dtypes")
    if not shapes or any(isinstance(d, str) for s in shapes for d in s):
        return []
    dts2 = [np.dtype(d) for d in dts] if dts else [np.dtype(np.float32)] * len(shapes)
    if any(d.kind == "c" for d in dts2):
        return []
    fn = tc.get("callable")
    try:
        if getattr(fn, "__jax2onnx_factory__", False):
            fn = fn.with_dtype(jnp.float32).instantiate()
    except Exception:
        return []
    sigbase = {"layer": "catalog", "component": f"{case['context']}/{case['component']}", "testcase": tc.get("testcase")}
    p = catalog.Prepared()
    p.case, p.fn, p.shapes, p.dtypes, p.params = case, fn, [tuple(s) for s in shapes], dts2, {}
    # data-dependent loops: termination depends on the values, so those callables only see the benign pool
    mode = 3 if catalog.has_data_dependent_loop(p) else 0
    return check_fn(cid, fn, shapes, dts2, tnames, acc, sigbase, {"kind": "catalog", "id": cid}, feed_mode=mode)


def check_program(prog, tnames, acc=None):
    from vf import progen

    fn = progen.build(prog)
    shapes = [tuple(s) for _, s in prog["inputs"]]
    dts = [np.dtype(progen.NP_DT[dt]) for dt, _ in prog["inputs"]]
    ops = sorted(set(progen.ops_of(prog)))
    vs = check_fn(digest(prog["stmts"]), fn, shapes, dts, tnames, acc, {"layer": "program", "ops": ops[:6]}, {"kind": "program", "prog": prog})
    out = []
    for v in vs:
        # localise: the first statement whose value, made the only output, already fails under this transformation
        tname = (v["case"].get("T") or [None])[0]
        label, sub = None, prog
        if tname and len(prog["stmts"]) >= 1:
            for st_ in prog["stmts"]:
                if isinstance(st_["o"], list):
                    continue
                cand = progen.prune(dict(prog, outputs=[st_["o"]]))
                try:
                    r = check_fn("blame", progen.build(cand), shapes, dts, [tname], None, {"layer": "program"}, {"kind": "program", "prog": cand})
                except Exception:
                    r = []
                if r and r[0]["sig"].get("kind") == v["sig"].get("kind"):
                    label, sub = st_["op"] + (":" + st_["kw"]["f"] if isinstance(st_.get("kw", {}).get("f"), str) else ""), cand
                    break
        v["sig"]["op"] = label or "?"
        v["case"] = dict(v["case"], prog=sub)
        out.append(v)
    return out


ALL_T = ["jit", "jit_jit", "inner_jit", "checkpoint", "vmap_lead", "vmap_first_only", "vmap_trailing", "vmap_out_last", "grad", "jvp", "vjp", "custom_jvp_grad", "custom_vjp_grad",
         "grad_last", "jvp_last", "vmap_mixed_axes"]


def list_ids(_):
    from vf import catalog

    return [c["id"] for c in catalog.cases() if c["tc"].get("callable") is not None and c["tc"].get("input_shapes")]


def plan(tier, seed):
    from vf import core

    res = list(core.run_pool("vf.props.c10", "list_ids", [{}], nproc=1))[0]
    if not res["ok"]:
        raise RuntimeError(res["tb"])
    ids = res["res"]
    rng = np.random.default_rng(seed)
    if tier == "quick":
        ids = [ids[i] for i in sorted(rng.choice(len(ids), size=min(160, len(ids)), replace=False).tolist())]
        nsh, budget, per = 16, 150, 4
    else:
        nsh, budget, per = 64, 500, len(ALL_T)
    shards = [{"kind": "catalog", "ids": ids[i::nsh], "budget_s": budget, "per": per, "seed": seed} for i in range(nsh)]
    shards += [{"kind": "programs", "shard": i, "seed": seed, "examples": 5 if tier == "quick" else 40, "per": per} for i in range(8 if tier == "quick" else 32)]
    return shards


def work(sh):
    import time

    from vf import core

    acc = Acc()
    if sh["kind"] == "catalog":
        t0 = time.monotonic()
        for k, cid in enumerate(sh["ids"]):
            if time.monotonic() - t0 > sh["budget_s"]:
                acc.inconclusive += len(sh["ids"]) - k
                break
            rng = np.random.default_rng(derive_seed(sh["seed"], cid))
            tn = ["jit"] + [ALL_T[i] for i in sorted(rng.choice(range(1, len(ALL_T)), size=min(sh["per"], len(ALL_T) - 1), replace=False).tolist())]
            try:
                with core.time_limit(150):
                    vs = check_catalog(cid, tn, acc)
            except core.CaseTimeout:
                acc.inconclusive += 1
                vs = []
            if not vs and len(acc.samples) < 1:
                acc.samples.append({"catalog_id": cid, "transformations": tn})
            for v in vs:
                acc.violation(v["sig"], v["case"], v["detail"])
    else:
        import hypothesis
        from hypothesis import HealthCheck, Phase, given, settings, strategies as st
        from vf import progen

        @hypothesis.seed(derive_seed(sh["seed"], "c10prog", sh["shard"]))
        @settings(max_examples=sh["examples"], deadline=None, database=None, suppress_health_check=list(HealthCheck),
                  phases=[Phase.generate], report_multiple_bugs=False)
        @given(progen.programs(max_stmts=6, allow=("ew", "ew", "shape", "red", "linalg"), input_kinds=(progen.F,), n_outputs=(1, 1)),
               st.lists(st.sampled_from(ALL_T[1:]), min_size=min(sh["per"], len(ALL_T) - 1), max_size=min(sh["per"], len(ALL_T) - 1), unique=True))
        def t(prog, tn):
            vs = check_program(prog, ["jit", "grad", "grad_last"] + [x for x in tn if x not in ("grad", "grad_last")], acc)
            if not vs and len(acc.samples) < 1:
                acc.samples.append({"program": [[s["op"], s.get("kw", {}).get("f", "")] for s in prog["stmts"]][:8], "transformations": tn})
            for v in vs:
                acc.violation(v["sig"], v["case"], v["detail"])

        t()
    return acc.to_dict()


def replay(case):
    if case["kind"] == "catalog":
        return check_catalog(case["id"], case["T"], None)
    return check_program(case["prog"], case["T"], None)
