import numpy as np, onnx, onnx_ir as ir
from onnx import helper as h, TensorProto as TP
import onnxruntime as ort
ort.set_default_logger_severity(4)
from jax2onnx.converter.ir_optimizations import optimize_graph
vi=lambda n,t,s: h.make_tensor_value_info(n,t,s)
def run(m, feeds):
    s=ort.InferenceSession(m.SerializeToString(), providers=["CPUExecutionProvider"])
    return s.run(None, feeds)
def trial(name, nodes, inputs, outputs, inits, feeds, vinfo=(), opset=21):
    g=h.make_graph(nodes,"g",inputs,outputs,list(inits),value_info=list(vinfo))
    m=h.make_model(g,opset_imports=[h.make_opsetid("",opset)],ir_version=10)
    onnx.checker.check_model(m, full_check=True)
    before=run(m,feeds)
    im=ir.from_proto(m); optimize_graph(im); m2=ir.to_proto(im)
    try:
        onnx.checker.check_model(m2, full_check=True)
        after=run(m2,feeds)
    except Exception as e:
        print(name,"AFTER INVALID:",str(e)[:200]); return
    ok=len(before)==len(after) and all(a.shape==b.shape and a.dtype==b.dtype and np.array_equal(a,b,equal_nan=True) for a,b in zip(before,after))
    print(name, "OK" if ok else "MISMATCH", [n.op_type for n in m.graph.node],"->",[n.op_type for n in m2.graph.node], "" if ok else [(b.shape,a.shape) for b,a in zip(before,after)])
rng=np.random.default_rng(0)
x=rng.standard_normal((2,3,4,5)).astype(np.float32)
T=lambda i,o,p: h.make_node("Transpose",[i],[o],perm=p)
# 1 intermediate T1 out also graph output
trial("t1_out_is_output",[T("x","a",[0,3,1,2]),h.make_node("Relu",["a"],["b"]),T("b","y",[0,2,3,1])],[vi("x",TP.FLOAT,[2,3,4,5])],[vi("y",TP.FLOAT,[2,3,4,5]),vi("a",TP.FLOAT,[2,5,3,4])],[],{"x":x})
# 2 Max with non scalar side operand between transposes
y=rng.standard_normal((2,5,3,4)).astype(np.float32)
trial("max_side_operand",[T("x","a",[0,3,1,2]),h.make_node("Max",["a","y"],["b"]),T("b","z",[0,2,3,1])],[vi("x",TP.FLOAT,[2,3,4,5]),vi("y",TP.FLOAT,[2,5,3,4])],[vi("z",TP.FLOAT,[2,3,4,5])],[],{"x":x,"y":y})
# 2b square dims so shapes don't reveal
xs=rng.standard_normal((2,3,3,3)).astype(np.float32); ys=rng.standard_normal((2,3,3,3)).astype(np.float32)
trial("max_side_operand_sq",[T("x","a",[0,3,1,2]),h.make_node("Max",["a","y"],["b"]),T("b","z",[0,2,3,1])],[vi("x",TP.FLOAT,[2,3,3,3]),vi("y",TP.FLOAT,[2,3,3,3])],[vi("z",TP.FLOAT,[2,3,3,3])],[],{"x":xs,"y":ys})
# 3 reshape pair with Max side operand
shp1=h.make_tensor("s1",TP.INT64,[2],[6,20]); shp2=h.make_tensor("s2",TP.INT64,[4],[2,3,4,5])
w=rng.standard_normal((6,20)).astype(np.float32)
trial("reshape_max_side",[h.make_node("Reshape",["x","s1"],["a"]),h.make_node("Max",["a","w"],["b"]),h.make_node("Reshape",["b","s2"],["z"])],[vi("x",TP.FLOAT,[2,3,4,5]),vi("w",TP.FLOAT,[6,20])],[vi("z",TP.FLOAT,[2,3,4,5])],[shp1,shp2],{"x":x,"w":w})
# 4 reshape pair symbolic swap (B,N)->(B*N)->(N,B)
xbn=rng.standard_normal((2,3)).astype(np.float32)
trial("reshape_sym_swap",[h.make_node("Reshape",["x","f"],["a"]),h.make_node("Shape",["x"],["sh"]),h.make_node("Gather",["sh","i1"],["n"]),h.make_node("Gather",["sh","i0"],["b"]),h.make_node("Concat",["n","b"],["tgt"],axis=0),h.make_node("Reshape",["a","tgt"],["z"])],[vi("x",TP.FLOAT,["B","N"])],[vi("z",TP.FLOAT,["N","B"])],[h.make_tensor("f",TP.INT64,[1],[-1]),h.make_tensor("i0",TP.INT64,[1],[0]),h.make_tensor("i1",TP.INT64,[1],[1])],{"x":xbn})
# 5 transpose-reduce-transpose with reducer output also graph output
ax=h.make_tensor("ax",TP.INT64,[2],[2,3])
trial("reduce_out_is_output",[T("x","a",[0,3,1,2]),h.make_node("ReduceMean",["a","ax"],["r"],keepdims=1),T("r","z",[0,2,3,1])],[vi("x",TP.FLOAT,[2,3,4,5])],[vi("z",TP.FLOAT,[2,1,1,5]),vi("r",TP.FLOAT,[2,5,1,1])],[ax],{"x":x})
# 6 add forest with add out as graph output
x2=rng.standard_normal((2,3,4,5)).astype(np.float32)
trial("addforest_out_is_output",[T("x","a",[0,3,1,2]),T("x2","a2",[0,3,1,2]),h.make_node("Add",["a","a2"],["s"]),T("s","z",[0,2,3,1])],[vi("x",TP.FLOAT,[2,3,4,5]),vi("x2",TP.FLOAT,[2,3,4,5])],[vi("z",TP.FLOAT,[2,3,4,5]),vi("s",TP.FLOAT,[2,5,3,4])],[],{"x":x,"x2":x2})
# 7 Cast pair int32->int8->int32 (should NOT fold), f32->f16->f32
xi=np.array([1,200,-300,127],np.int32)
trial("cast_i32_i8",[h.make_node("Cast",["x"],["a"],to=TP.INT8),h.make_node("Cast",["a"],["z"],to=TP.INT32)],[vi("x",TP.INT32,[4])],[vi("z",TP.INT32,[4])],[],{"x":xi})
trial("cast_f32_f16",[h.make_node("Cast",["x"],["a"],to=TP.FLOAT16),h.make_node("Cast",["a"],["z"],to=TP.FLOAT)],[vi("x",TP.FLOAT,[2,3,4,5])],[vi("z",TP.FLOAT,[2,3,4,5])],[],{"x":x})
# 8 cast i32->f32->i32 (not preserving), i32->f64->i32 ok
xi2=np.array([16777217,2**31-1,-2**31,5],np.int32)
trial("cast_i32_f32",[h.make_node("Cast",["x"],["a"],to=TP.FLOAT),h.make_node("Cast",["a"],["z"],to=TP.INT32)],[vi("x",TP.INT32,[4])],[vi("z",TP.INT32,[4])],[],{"x":xi2})
# 9 identity reshape with symbolic
# 10 Clip with tensor min between transposes
mn=rng.standard_normal((2,5,3,4)).astype(np.float32)
trial("clip_side",[T("x","a",[0,3,1,2]),h.make_node("Clip",["a","mn"],["b"]),T("b","z",[0,2,3,1])],[vi("x",TP.FLOAT,[2,3,4,5]),vi("mn",TP.FLOAT,[2,5,3,4])],[vi("z",TP.FLOAT,[2,3,4,5])],[],{"x":x,"mn":mn}) if False else None
# 11 transposes with T1 two consumers: Relu->T2 and another op
trial("t1_two_consumers",[T("x","a",[0,3,1,2]),h.make_node("Relu",["a"],["b"]),T("b","z",[0,2,3,1]),h.make_node("Neg",["a"],["q"])],[vi("x",TP.FLOAT,[2,3,4,5])],[vi("z",TP.FLOAT,[2,3,4,5]),vi("q",TP.FLOAT,[2,5,3,4])],[],{"x":x})
# 12 relu out also graph output
trial("mid_is_output",[T("x","a",[0,3,1,2]),h.make_node("Relu",["a"],["b"]),T("b","z",[0,2,3,1])],[vi("x",TP.FLOAT,[2,3,4,5])],[vi("z",TP.FLOAT,[2,3,4,5]),vi("b",TP.FLOAT,[2,5,3,4])],[],{"x":x})
