import sys, os, json, hashlib, warnings, importlib, random
warnings.filterwarnings("ignore")
sys.path.insert(0,'/tmp/scratch_repo')
import logging; logging.disable(logging.CRITICAL)
from pathlib import Path
import numpy as np, jax, jax.numpy as jnp
import jax2onnx
import jax2onnx.plugins.plugin_system as ps
perm_seed=int(sys.argv[1])
root=Path(ps.__file__).parent
mods=[]
for py in root.rglob("*.py"):
    if py.name in {"plugin_system.py","__init__.py"}: continue
    mods.append(".".join(["jax2onnx.plugins"]+list(py.relative_to(root).with_suffix("").parts)))
mods=sorted(mods)
if perm_seed>=0:
    random.Random(perm_seed).shuffle(mods)
    for m in mods:
        try: importlib.import_module(m)
        except Exception as e: pass
from jax2onnx import to_onnx
ps.import_all_plugins()
order=list(ps.PLUGIN_REGISTRY)[:3]
cases=[]
for name, plugin in sorted(ps.PLUGIN_REGISTRY.items()):
    md=getattr(plugin,'metadata',None)
    if not md: continue
    for i,tc in enumerate(md.get('testcases',[])): cases.append((f"{name}#{tc['testcase']}#{i}",tc))
for k,md in sorted(ps.EXAMPLE_REGISTRY.items()):
    for i,tc in enumerate(md.get('testcases',[])): cases.append((f"ex:{k}#{tc['testcase']}#{i}",tc))
cases.sort(key=lambda c:c[0])
sel=cases[3::17]
out={}
for cid,tc in sel:
    try:
        fn=tc.get("callable")
        if getattr(fn,"__jax2onnx_factory__",False): fn=fn.with_dtype(jnp.float32).instantiate()
        shapes=tc.get("input_shapes"); dts=tc.get("input_dtypes"); vals=tc.get("input_values")
        if shapes is not None: specs=[jax.ShapeDtypeStruct(tuple(s),d) for s,d in zip(shapes,dts)] if dts else [tuple(s) for s in shapes]
        elif vals is not None:
            base=[np.asarray(v) for v in vals]; base=[f.astype(np.float32) if f.dtype==np.float64 else (f.astype(np.int32) if f.dtype==np.int64 else f) for f in base]
            specs=[jax.ShapeDtypeStruct(f.shape,f.dtype) for f in base]
        else: specs=[]
        kw={}
        for k in ("inputs_as_nchw","outputs_as_nchw","normalization_mode","input_params"):
            if tc.get(k) is not None: kw[k]=tc[k]
        if tc.get("opset_version"): kw["opset"]=tc["opset_version"]
        m=to_onnx(fn,specs,**kw)
        out[cid]="big" if m.ByteSize()>30_000_000 else hashlib.sha256(m.SerializeToString(deterministic=True)).hexdigest()[:16]
    except Exception as e: out[cid]="ERR "+type(e).__name__
json.dump({"first_registry_keys":order,"n_registry":len(ps.PLUGIN_REGISTRY),"out":out},open(f"/tmp/scratch/c14_{perm_seed}.json","w"))
