"""C15 — all return and file modes deliver the same model (Hypothesis stateful machine over a temp dir)."""

from __future__ import annotations

import hashlib
import os
import shutil
import tempfile

import numpy as np

from vf.core import Acc, derive_seed, digest

PROPERTY = "C15"
LEVEL = "exploration"
RULE = (
    "Hypothesis RuleBasedStateMachine over one temporary directory: rule export(path in {m.onnx, sub/m.onnx, other.onnx, rel path}, parameter "
    "size class in {none, small, 1 MiB threshold -1 element, threshold +1 element, large, two large, int8 large}, export_mode in {standard, web} in canonical and accepted non-canonical spellings (case, surrounding blanks), "
    "salt) with paths reused across steps (standard->web, large->small, web->standard), <=6 steps per history. Invariant after every step, for "
    "the one request: proto == to_proto(ir) bytewise (deterministic serialization); the reloaded file has the same node list/attributes/I-O and "
    "every initializer has the same dims, dtype and SHA-256 of its decoded bytes (external data resolved relative to the file); ORT outputs of "
    "file and proto are identical; web mode leaves a single file and references no external data; a standard export referencing external data "
    "has its sidecar; the file at a path always equals a fresh export of the *last* request to that path. non-trivial = step overwriting a path "
    "previously written in another mode or size class; distinct by (history prefix digest)."
)
ASSUMPTIONS = [
    "onnx.load / numpy_helper.to_array(base_dir) define what 'reloaded from disk together with any sidecar' means",
    "the 1 MiB spill threshold is probed with float32 matrices of 262143/262144/262145+ elements",
]

SIZES = {"none": None, "small": (8, 8), "just_below": (512, 511), "at_threshold": (512, 512), "just_above": (512, 513), "large": (700, 600),
         "two_large": (600, 600), "int8_large": (1100, 1000), "three_large_odd": (550, 550), "three_large_mixed": (520, 520)}
PATHS = ["m.onnx", "sub/m.onnx", "other.onnx", "sub/deeper/m2.onnx"]


def make_fn(size_cls, salt):
    import jax.numpy as jnp

    if SIZES[size_cls] is None:
        return (lambda x: jnp.tanh(x) * 2 + salt), (2, 8)
    r, c = SIZES[size_cls]
    if size_cls == "int8_large":
        w = np.random.RandomState(salt).randint(-100, 100, size=(r, c)).astype(np.int8)
        return (lambda x: x @ jnp.asarray(w).astype(jnp.float32)), (2, r)
    w = np.random.RandomState(salt).randn(r, c).astype(np.float32)
    if size_cls == "three_large_odd":
        ws = [np.random.RandomState(salt + i).randn(r, c).astype(np.float32) * 0.05 for i in range(3)]
        return (lambda x: ((x @ ws[0]) @ ws[1]) @ ws[2]), (2, r)
    if size_cls == "three_large_mixed":
        w1 = np.random.RandomState(salt).randn(520, 520).astype(np.float32) * 0.05
        w2 = np.random.RandomState(salt + 1).randn(520, 600).astype(np.float32) * 0.05
        w3 = np.random.RandomState(salt + 2).randn(600, 600).astype(np.float32) * 0.05
        return (lambda x: ((x @ w1) @ w2) @ w3), (2, 520)
    if size_cls == "two_large":
        w2 = np.random.RandomState(salt + 100).randn(c, r).astype(np.float32)
        return (lambda x: (x @ w) @ w2), (2, r)
    return (lambda x: x @ w), (2, r)


def norm_inits(m, base_dir=""):
    from onnx import numpy_helper as nh

    return {t.name: (tuple(t.dims), t.data_type, hashlib.sha256(nh.to_array(t, base_dir).tobytes()).hexdigest()) for t in m.graph.initializer}


def struct(m):
    return ([(n.op_type, tuple(n.input), tuple(n.output), tuple(sorted((a.name, a.type) for a in n.attribute))) for n in m.graph.node],
            [i.name for i in m.graph.input], [o.name for o in m.graph.output])


MODE_SPELLINGS = ["standard", "web", "standard", "web", "Web", " WEB ", "Standard", "web ", "STANDARD"]


def _canon(mode):
    return mode.lower().strip()


def run_history(steps, root, acc=None):
    """Executes export steps; returns list of violation dicts (first failing step only)."""
    import onnx
    import onnx_ir as ir
    from vf import jaxutil, onnxutil

    prev = {}
    for idx, (path, size, raw_mode, salt) in enumerate(steps):
        mode = _canon(raw_mode)  # the documented normalisation (case / surrounding blanks); the raw spelling goes to to_onnx
        fn, shape = make_fn(size, salt)
        full = os.path.join(root, path)
        problems = []
        try:
            proto = jaxutil.to_onnx(fn, [shape])
            irp = ir.to_proto(jaxutil.to_onnx(fn, [shape], return_mode="ir"))
            ret = jaxutil.to_onnx(fn, [shape], return_mode="file", output_path=full, export_mode=raw_mode)
        except Exception as e:
            problems.append(("export_raised", f"{type(e).__name__}: {str(e)[:200]}"))
            ret = None
        if not problems:
            if os.fspath(ret) != full:
                problems.append(("return_value", f"returned {ret!r} for output_path {full!r}"))
            if proto.SerializeToString(deterministic=True) != irp.SerializeToString(deterministic=True):
                problems.append(("proto_vs_ir", "return_mode='proto' and to_proto(return_mode='ir') differ"))
            base = os.path.dirname(full)
            try:
                loaded = onnx.load(full, load_external_data=False)
                if struct(loaded) != struct(proto):
                    problems.append(("graph_differs_after_reload", "node list / attributes / IO differ"))
                li, pi = norm_inits(loaded, base), norm_inits(proto)
                if li != pi:
                    badn = [k for k in pi if li.get(k) != pi[k]][:3]
                    problems.append(("initializer_bytes", f"initializers differ after reload: {badn}"))
                side = full + ".data"
                uses_ext = any(t.data_location == onnx.TensorProto.EXTERNAL for t in loaded.graph.initializer)
                if mode == "web":
                    if uses_ext:
                        problems.append(("web_external", "web export references external data"))
                    if os.path.exists(side):
                        problems.append(("web_sidecar", "web export left a sidecar next to the model"))
                if uses_ext and not os.path.exists(side):
                    problems.append(("missing_sidecar", "model references external data but the sidecar is missing"))
                x = np.random.RandomState(9).randn(*shape).astype(np.float32)
                a = onnxutil.run(onnxutil.session(open(full, "rb").read()) if not uses_ext else _session_from_path(full), {"in_0": x})[0]
                b = onnxutil.run(proto, {"in_0": x})[0]
                if not np.array_equal(a, b):
                    problems.append(("ort_outputs", f"file vs proto max diff {np.abs(a - b).max():.3g}"))
            except Exception as e:
                problems.append(("reload_failed", f"{type(e).__name__}: {str(e)[:200]}"))
        overwrite = bool(prev.get(path)) and prev[path] != (mode, size)
        trans = f"{prev[path][0]}/{prev[path][1]}->{mode}/{size}" if prev.get(path) else f"new->{mode}/{size}"
        if acc:
            acc.case(key=digest(steps[: idx + 1]), nontrivial=overwrite)
            acc.tally("size_class", size)
            acc.tally("mode", mode)
            if overwrite:
                acc.count("overwrites_other_mode_or_size")
        prev[path] = (mode, size)
        if problems:
            facet, text = problems[0]
            return [{"sig": {"facet": facet, "mode": mode, "size_class": size, "overwrite": overwrite},
                     "case": {"kind": "history", "steps": [list(s) for s in steps[: idx + 1]]}, "detail": f"step {idx} {trans} {path}: {text}"}]
    return []


def _session_from_path(path):
    import onnxruntime as ort

    so = ort.SessionOptions()
    so.intra_op_num_threads = 1
    so.log_severity_level = 4
    so.graph_optimization_level = ort.GraphOptimizationLevel.ORT_DISABLE_ALL
    return ort.InferenceSession(path, so, providers=["CPUExecutionProvider"])


def plan(tier, seed):
    n = 16 if tier == "quick" else 48
    return [{"kind": "machine", "shard": i, "seed": seed, "examples": 4 if tier == "quick" else 54} for i in range(n)]


def work(sh):
    import hypothesis
    from hypothesis import HealthCheck, settings, strategies as st
    from hypothesis.stateful import RuleBasedStateMachine, rule, run_state_machine_as_test

    acc = Acc()

    class Modes(RuleBasedStateMachine):
        def __init__(self):
            super().__init__()
            self.dir = tempfile.mkdtemp(prefix="vf_c15_")
            self.steps = []
            self.dead = False

        @rule(path=st.sampled_from(PATHS), size=st.sampled_from(sorted(SIZES)), mode=st.sampled_from(MODE_SPELLINGS), salt=st.integers(0, 3))
        def export(self, path, size, mode, salt):
            if self.dead:
                return
            self.steps.append((path, size, mode, salt))
            # re-run only the new step against the live directory: replay the whole prefix in a fresh dir would hide stale-sidecar effects
            vs = run_last_step(self, acc)
            for v in vs:
                acc.violation(v["sig"], v["case"], v["detail"])
                self.dead = True

        def teardown(self):
            if len(acc.samples) < 2 and self.steps:
                acc.samples.append({"history": [list(s) for s in self.steps]})
            shutil.rmtree(self.dir, ignore_errors=True)

    def run_last_step(machine, acc_):
        # run_history on the single new step but with knowledge of earlier writes (prev map) -> emulate by keeping state on the machine
        if not hasattr(machine, "prev"):
            machine.prev = {}
        return _run_step(machine, acc_)

    def _run_step(machine, acc_):
        steps = machine.steps
        path, size, mode, salt = steps[-1]
        # reuse run_history's body for one step by calling it with a prev map
        return run_history_incremental(steps, machine.dir, machine.prev, acc_)

    run_state_machine_as_test(
        hypothesis.seed(derive_seed(sh["seed"], "c15", sh["shard"]))(Modes),
        settings=settings(max_examples=sh["examples"], stateful_step_count=6, deadline=None, database=None,
                          suppress_health_check=list(HealthCheck), report_multiple_bugs=False),
    )
    return acc.to_dict()


def run_history_incremental(steps, root, prev, acc):
    """Run only the last step of `steps` in `root` (earlier steps already executed there)."""
    only_last = [steps[-1]]
    # temporarily seed prev so overwrite/transition bookkeeping is right
    path = steps[-1][0]
    vs = _run_with_prev(only_last, steps, root, prev, acc)
    prev[path] = (_canon(steps[-1][2]), steps[-1][1])
    return vs


def _run_with_prev(last, all_steps, root, prev, acc):
    class _A:
        pass

    # run_history computes `prev` itself from the steps it executes; emulate prior writes by a wrapper Acc
    path, size, raw_mode, salt = last[0]
    mode = _canon(raw_mode)
    overwrite = bool(prev.get(path)) and prev[path] != (mode, size)
    vs = run_history(last, root, None)
    if acc:
        acc.case(key=digest([list(s) for s in all_steps]), nontrivial=overwrite)
        acc.tally("size_class", size)
        acc.tally("mode", mode)
        acc.tally("mode_spelling", "canonical" if raw_mode == mode else "case_or_blank_variant")
        if overwrite:
            acc.count("overwrites_other_mode_or_size")
            acc.tally("transitions", f"{prev[path][0]}/{prev[path][1]}->{mode}/{size}")
    for v in vs:
        v["case"] = {"kind": "history", "steps": [list(s) for s in all_steps]}
        v["sig"]["overwrite"] = overwrite
    return vs


def replay(case):
    root = tempfile.mkdtemp(prefix="vf_c15r_")
    try:
        steps = [tuple(s) for s in case["steps"]]
        out = []
        prev = {}
        for i in range(len(steps)):
            vs = _run_with_prev([steps[i]], steps[: i + 1], root, prev, None)
            prev[steps[i][0]] = (steps[i][2], steps[i][1])
            if vs:
                out = vs
                break
        return out
    finally:
        shutil.rmtree(root, ignore_errors=True)
