"""Typed grammar of JAX programs.

A program is JSON (replayable, minimisable):
  {"inputs": [[dt, shape]], "stmts": [{"o": name, "op": opname, "a": [names], "kw": {...}, "body"/"bodies": subprog}],
   "outputs": [names]}
Values are SSA names; shapes may carry the symbol "B" (and "N").  `build(prog)` gives the Python
callable, `programs(...)` is the Hypothesis strategy (well-typed by construction: the generator
tracks (dtype, shape) of every value and only applies an op to operands in its domain; every op
that has a restricted mathematical domain is wrapped by a *guard* that maps any finite operand into it).
"""

from __future__ import annotations

import numpy as np
from hypothesis import strategies as st

F, I, B = "f", "i", "b"
SHAPES = [(), (3,), (4,), (2, 3), (3, 1), (1, 3), (3, 3), (2, 1, 3), (2, 2, 3), (2, 3, 4)]
SYM_SHAPES = [("B",), ("B", 3), ("B", 1), ("B", 2, 3), ("B", 3, 3)]


def _jnp():
    import jax
    import jax.numpy as jnp
    from jax import lax

    return jax, jnp, lax


def _tables():
    jax, jnp, lax = _jnp()
    UN_F = {
        "sin": jnp.sin, "cos": jnp.cos, "tanh": jnp.tanh,
        "exp_c": lambda x: jnp.exp(jnp.clip(x, -20, 20)),
        "log_a": lambda x: jnp.log(jnp.abs(x) + 0.5),
        "sqrt_a": lambda x: jnp.sqrt(jnp.abs(x)),
        "floor": jnp.floor, "ceil": jnp.ceil, "round": jnp.round, "rint": jnp.rint, "trunc": jnp.trunc,
        "lax_round_away": lambda x: lax.round(x, lax.RoundingMethod.AWAY_FROM_ZERO),
        "lax_round_even": lambda x: lax.round(x, lax.RoundingMethod.TO_NEAREST_EVEN),
        "sign": jnp.sign, "abs": jnp.abs, "neg": jnp.negative, "square": jnp.square,
        "relu": jax.nn.relu, "gelu": jax.nn.gelu, "sigmoid": jax.nn.sigmoid, "softplus": jax.nn.softplus,
        "log_sigmoid": jax.nn.log_sigmoid, "silu": jax.nn.silu, "elu": jax.nn.elu,
        "leaky_relu": jax.nn.leaky_relu, "erf": jax.scipy.special.erf, "relu6": jax.nn.relu6,
        "log1p_a": lambda x: jnp.log1p(jnp.abs(x)), "expm1_c": lambda x: jnp.expm1(jnp.clip(x, -20, 20)),
        "recip_g": lambda x: 1.0 / (jnp.abs(x) + 0.5), "rsqrt_g": lambda x: lax.rsqrt(jnp.abs(x) + 0.5),
        "softmax": lambda x: jax.nn.softmax(x, axis=-1) if x.ndim else x,
        "log_softmax": lambda x: jax.nn.log_softmax(x, axis=-1) if x.ndim else x,
        "cumsum": lambda x: jnp.cumsum(x, axis=-1) if x.ndim else x,
        "arctan": jnp.arctan, "sinh_c": lambda x: jnp.sinh(jnp.clip(x, -10, 10)), "cosh_c": lambda x: jnp.cosh(jnp.clip(x, -10, 10)),
        "hard_tanh": jax.nn.hard_tanh, "celu": jax.nn.celu, "selu": jax.nn.selu, "mish": jax.nn.mish,
        "isfinite_f": lambda x: jnp.isfinite(x).astype(jnp.float32),
    }
    BIN_F = {
        "add": jnp.add, "sub": jnp.subtract, "mul": jnp.multiply,
        "div_g": lambda a, b: jnp.divide(a, jnp.abs(b) + 0.5),
        "div_c": lambda a, b: jnp.divide(2.0, jnp.abs(a) + jnp.abs(b) + 0.5),
        "pow_c": lambda a, b: jnp.power(2.0, jnp.clip(a + b, -3, 3)),
        "clip_hi": lambda a, b: jnp.clip(a, -0.5, jnp.abs(b) + 0.25),
        "max": jnp.maximum, "min": jnp.minimum,
        "fmod_g": lambda a, b: jnp.fmod(a, jnp.abs(b) + 0.5),
        "rem_g": lambda a, b: jnp.remainder(a, jnp.abs(b) + 0.5),
        "floordiv_g": lambda a, b: jnp.floor_divide(a, jnp.abs(b) + 0.5),
        "pow_g": lambda a, b: jnp.power(jnp.abs(a) + 0.5, jnp.clip(b, -3, 3)),
        "atan2": jnp.arctan2, "hypot": jnp.hypot, "copysign": jnp.copysign,
        "logaddexp": jnp.logaddexp,
    }
    # integer (or boolean) operands under JAX's type promotion: the result is a float although no operand array is
    PROMO = {
        "clip_f": lambda x: jnp.clip(x, 0.5, 2.5), "max_f": lambda x: jnp.maximum(x, 0.5), "min_f": lambda x: jnp.minimum(x, 1.5),
        "add_f": lambda x: x + 0.5, "mul_f": lambda x: x * 1.5, "rsub_f": lambda x: 0.25 - x, "truediv": lambda x: x / 4,
        "pow_f": lambda x: jnp.power(jnp.abs(x), 0.5), "sqrt": lambda x: jnp.sqrt(jnp.abs(x)),
        "exp": lambda x: jnp.exp(jnp.clip(x, -5, 5)), "tanh": lambda x: jnp.tanh(x), "sin": lambda x: jnp.sin(jnp.clip(x, -100, 100)),
        "where_f": lambda x: jnp.where(x > 0, x, 0.5),
        "mean": lambda x: jnp.mean(x, axis=-1) if x.ndim else jnp.mean(x), "mean_all": lambda x: jnp.mean(x),
        "var": lambda x: jnp.var(jnp.clip(x, -100, 100), axis=-1) if x.ndim else x * 0.5,
        "std_all": lambda x: jnp.std(jnp.clip(x, -100, 100)),
        "cast_div": lambda x: x.astype(jnp.asarray(0.0).dtype) / 3,
    }
    UN_I = {"neg": jnp.negative, "abs": jnp.abs, "sign": jnp.sign, "square": jnp.square, "invert": jnp.invert}
    BIN_I = {
        "add": jnp.add, "sub": jnp.subtract, "mul": jnp.multiply, "max": jnp.maximum, "min": jnp.minimum,
        "floordiv_nz": lambda a, b: jnp.floor_divide(a, jnp.where(b == 0, 1, b)),
        "rem_nz": lambda a, b: jnp.remainder(a, jnp.where(b == 0, 1, b)),
        "fmod_nz": lambda a, b: jnp.fmod(a, jnp.where(b == 0, 1, b)),
        "and": jnp.bitwise_and, "or": jnp.bitwise_or, "xor": jnp.bitwise_xor,
        "shl": lambda a, b: jnp.left_shift(a, jnp.clip(b, 0, 7)),
        "shr": lambda a, b: jnp.right_shift(a, jnp.clip(b, 0, 7)),
    }
    CMP = {"lt": jnp.less, "le": jnp.less_equal, "eq": jnp.equal, "ne": jnp.not_equal, "gt": jnp.greater, "ge": jnp.greater_equal}
    RED_F = {"sum": jnp.sum, "mean": jnp.mean, "max": jnp.max, "min": jnp.min, "prod": jnp.prod,
             "logsumexp": jax.scipy.special.logsumexp, "var": jnp.var, "std": jnp.std}
    RED_I = {"sum": jnp.sum, "max": jnp.max, "min": jnp.min, "prod": jnp.prod}
    RED_B = {"any": jnp.any, "all": jnp.all}
    # Library functions are looked up at call time (`jnp.copysign(a, b)` as users write it): the converter patches module
    # attributes while tracing, and a reference captured here would freeze whichever world happened to be active when the
    # table was first built - making the generated programs depend on the order in which shards run.
    mods = [jnp, jax.nn, jax.scipy.special, lax]

    def late(v):
        if getattr(v, "__name__", "") == "<lambda>":
            return v
        for m in mods:
            n = getattr(v, "__name__", None)
            if n and getattr(m, n, None) is v:
                return (lambda mod, name: (lambda *a, **k: getattr(mod, name)(*a, **k)))(m, n)
        for m in mods:
            for n in dir(m):
                if getattr(m, n, None) is v:
                    return (lambda mod, name: (lambda *a, **k: getattr(mod, name)(*a, **k)))(m, n)
        raise RuntimeError(f"progen table: cannot late-bind {v!r}")

    tabs = dict(PROMO=PROMO, UN_F=UN_F, BIN_F=BIN_F, UN_I=UN_I, BIN_I=BIN_I, CMP=CMP, RED_F=RED_F, RED_I=RED_I, RED_B=RED_B)
    return {k: {n: late(f) for n, f in d.items()} for k, d in tabs.items()}


_T = None


def T():
    global _T
    if _T is None:
        _T = _tables()
    return _T


NP_DT = {F: np.float32, I: np.int32, B: np.bool_}
UN_F_NAMES = ["sin", "cos", "tanh", "exp_c", "log_a", "sqrt_a", "floor", "ceil", "round", "rint", "trunc", "lax_round_away",
              "lax_round_even", "sign", "abs", "neg", "square", "relu", "gelu", "sigmoid", "softplus", "log_sigmoid", "silu", "elu",
              "leaky_relu", "erf", "relu6", "log1p_a", "expm1_c", "recip_g", "rsqrt_g", "softmax", "log_softmax", "cumsum", "arctan",
              "sinh_c", "cosh_c", "hard_tanh", "celu", "selu", "mish", "isfinite_f"]
ARANGE_F = [(0.05, 2.0, 0.1), (0.0, 1.0, 0.3), (1.5, -1.0, -0.7), (0.1, 0.75, 0.05)]
PROMO_NAMES = ["clip_f", "max_f", "min_f", "add_f", "mul_f", "rsub_f", "truediv", "pow_f", "sqrt", "exp", "tanh", "sin", "where_f", "mean", "mean_all",
               "var", "std_all", "cast_div"]
# open findings (known_findings/C01.json, D19): these lower with the *integer* operand type (clip/maximum/minimum/power against a
# float scalar return int32). (jnp.where(int, x, 0.5) announcing float64 to its consumers was repaired: corpus/C01/promo-where_f-then-prod.) They stay in the table for the committed repro cases but are not drawn, so that the programs around
# them keep being checked. (jnp.mean of an integer/bool tensor was repaired: corpus/C01/promo-mean-*.)
PROMO_KNOWN_BROKEN = ("clip_f", "max_f", "min_f", "pow_f", "var", "std_all")  # var/std of integers: invalid in double precision (C03 special repro)
PROMO_REDUCING = {"mean": "last", "var": "last", "mean_all": "all", "std_all": "all"}
BIN_F_NAMES = ["add", "sub", "mul", "div_g", "max", "min", "fmod_g", "rem_g", "floordiv_g", "pow_g", "atan2", "hypot", "copysign", "logaddexp", "div_c", "pow_c", "clip_hi"]
UN_I_NAMES = ["neg", "abs", "sign", "square", "invert"]
BIN_I_NAMES = ["add", "sub", "mul", "max", "min", "floordiv_nz", "rem_nz", "fmod_nz", "and", "or", "xor", "shl", "shr"]
CMP_NAMES = ["lt", "le", "eq", "ne", "gt", "ge"]
RED_F_NAMES = ["sum", "mean", "max", "min", "prod", "logsumexp", "var", "std"]
RED_I_NAMES = ["sum", "max", "min", "prod"]


def bshape(a, b):
    """numpy broadcasting over shapes that may contain symbols (equal symbols only)."""
    ra, rb = list(a)[::-1], list(b)[::-1]
    out = []
    for i in range(max(len(ra), len(rb))):
        da = ra[i] if i < len(ra) else 1
        db = rb[i] if i < len(rb) else 1
        if da == db:
            out.append(da)
        elif da == 1:
            out.append(db)
        elif db == 1:
            out.append(da)
        else:
            return None
    return tuple(out[::-1])


def static(shape):
    return all(isinstance(d, int) for d in shape)


def numel(shape):
    n = 1
    for d in shape:
        n *= d
    return n


# ----------------------------------------------------------------------------- evaluation


def _dim(env, d):
    return d


def eval_stmt(s, env):
    jax, jnp, lax = _jnp()
    t = T()
    op = s["op"]
    a = [env[x] for x in s.get("a", [])]
    kw = s.get("kw", {})
    if op == "un_f":
        return t["UN_F"][kw["f"]](a[0])
    if op == "bin_f":
        return t["BIN_F"][kw["f"]](a[0], a[1])
    if op == "un_i":
        return t["UN_I"][kw["f"]](a[0])
    if op == "promo":
        return t["PROMO"][kw["f"]](a[0])
    if op == "bin_i":
        return t["BIN_I"][kw["f"]](a[0], a[1])
    if op == "cmp":
        return t["CMP"][kw["f"]](a[0], a[1])
    if op == "not":
        return jnp.logical_not(a[0])
    if op == "and":
        return jnp.logical_and(a[0], a[1])
    if op == "or":
        return jnp.logical_or(a[0], a[1])
    if op == "where":
        return jnp.where(a[0], a[1], a[2])
    if op == "clip":
        return jnp.clip(a[0], kw["lo"], kw["hi"])
    if op == "cast":
        return a[0].astype({"f": jnp.float32, "i": jnp.int32, "b": jnp.bool_, "f16": jnp.float16, "i8": jnp.int8, "u8": jnp.uint8, "i16": jnp.int16}[kw["to"]])
    if op == "cast_rt":  # round trip through a narrower/wider type, back to the original kind
        mid = {"f16": jnp.float16, "i8": jnp.int8, "u8": jnp.uint8, "i16": jnp.int16, "f": jnp.float32, "i": jnp.int32}[kw["via"]]
        x = a[0]
        if kw.get("clip"):
            x = jnp.clip(x, kw["clip"][0], kw["clip"][1])
        return x.astype(mid).astype(a[0].dtype)
    if op == "constf":
        # default float dtype (float32, or float64 under x64): explicit float32 constants in double-precision exports are C09's subject
        return jnp.full(tuple(kw["shape"]), kw["v"], jnp.asarray(0.0).dtype)
    if op == "arange_f":
        # float-valued jnp.arange with arguments that are not exactly representable in float32; default float dtype
        return jnp.arange(kw["start"], kw["stop"], kw["step"]) * a[0].reshape(-1)[:1].astype(jnp.asarray(0.0).dtype) if a else jnp.arange(kw["start"], kw["stop"], kw["step"])
    if op == "consti":
        return jnp.full(tuple(kw["shape"]), kw["v"], jnp.int32)
    if op == "const_arr":
        npdt = NP_DT[kw["dt"]] if kw["dt"] != F else np.dtype(jnp.asarray(0.0).dtype)
        return jnp.asarray(np.asarray(kw["v"], dtype=npdt).reshape(kw["shape"]))
    if op == "red":
        fn = (t["RED_F"] if kw["k"] == F else t["RED_I"] if kw["k"] == I else t["RED_B"])[kw["f"]]
        return fn(a[0], axis=kw["axis"], keepdims=kw["keepdims"])
    if op == "argred":
        fn = jnp.argmax if kw["f"] == "argmax" else jnp.argmin
        return fn(a[0], axis=kw["axis"]).astype(jnp.int32)
    if op == "reshape":
        shp = tuple(a[0].shape[0] if d == "B" else d for d in kw["shape"])
        return jnp.reshape(a[0], shp)
    if op == "transpose":
        return jnp.transpose(a[0], kw["perm"])
    if op == "swapaxes":
        return jnp.swapaxes(a[0], kw["a1"], kw["a2"])
    if op == "expand_dims":
        return jnp.expand_dims(a[0], kw["axis"])
    if op == "squeeze":
        return jnp.squeeze(a[0], axis=kw["axis"])
    if op == "bcast":
        shp = tuple(a[0].shape[0] if d == "B" else d for d in kw["shape"])
        return jnp.broadcast_to(a[0], shp)
    if op == "bcast_in_dim":
        shp = tuple(a[0].shape[0] if d == "B" else d for d in kw["shape"])
        return lax.broadcast_in_dim(a[0], shp, tuple(kw["dims"]))
    if op == "concat":
        return jnp.concatenate(a, axis=kw["axis"])
    if op == "stack":
        return jnp.stack(a, axis=kw["axis"])
    if op == "slice":
        idx = tuple(slice(*s_) for s_ in kw["idx"])
        return a[0][idx]
    if op == "flip":
        return jnp.flip(a[0], axis=kw["axis"])
    if op == "pad":
        return jnp.pad(a[0], kw["widths"], constant_values=kw.get("cv", 0))
    if op == "tile":
        return jnp.tile(a[0], kw["reps"])
    if op == "matmul":
        return jnp.matmul(a[0], a[1])
    if op == "einsum":
        return jnp.einsum(kw["spec"], *a)
    if op == "take":
        return jnp.take(a[0], jnp.clip(a[1], 0, a[0].shape[kw["axis"]] - 1), axis=kw["axis"])
    if op == "one_hot":
        return jax.nn.one_hot(jnp.clip(a[0], 0, kw["n"] - 1), kw["n"], dtype=jnp.float32)
    if op == "sort":
        return jnp.sort(a[0], axis=kw["axis"])
    if op == "dynslice":
        start = jnp.clip(a[1], 0, a[0].shape[0] - kw["size"])
        return lax.dynamic_slice_in_dim(a[0], start, kw["size"], axis=0)
    if op == "dim":  # symbolic dimension arithmetic as an int32 value
        from jax2onnx.plugins.jax.core.dim_as_value import dim_as_value  # noqa: F401 (registered primitive)

        b = a[0].shape[0]
        e = dimexpr_eval(kw["e"], b, a[1].shape[0] if len(a) > 1 else None)
        return dim_as_value(e) if not isinstance(e, int) else jnp.asarray(e, jnp.int32)
    if op == "arange_dim":
        b = a[0].shape[0]
        e = dimexpr_eval(kw["e"], b, None)
        return jnp.arange(e, dtype=jnp.int32).astype(jnp.float32)
    if op == "reshape_dim":
        b = a[0].shape[0]
        shp = tuple(dimexpr_eval(d, b, None) if not isinstance(d, int) else d for d in kw["shape"])
        return jnp.reshape(a[0], shp)
    if op == "cond":
        br = [build_body(bd, env) for bd in s["bodies"]]
        return lax.cond(a[0], br[1], br[0], *a[1:])
    if op == "switch":
        br = [build_body(bd, env) for bd in s["bodies"]]
        return lax.switch(a[0], br, *a[1:])
    if op == "fori":
        body = build_body(s["bodies"][0], env)
        return lax.fori_loop(kw["lo"], kw["hi"], lambda i, c: body(i, *c), tuple(a))
    if op == "while":
        cond_b = build_body(s["bodies"][0], env)
        body = build_body(s["bodies"][1], env)
        return lax.while_loop(lambda c: cond_b(*c), lambda c: body(*c), tuple(a))
    if op == "scan":
        body = build_body(s["bodies"][0], env)
        nc = kw["ncarry"]

        def f(carry, xs):
            out = body(*carry, *(xs if isinstance(xs, tuple) else ((xs,) if xs is not None else ())))
            out = out if isinstance(out, tuple) else (out,)
            return tuple(out[:nc]), tuple(out[nc:])

        xs = tuple(a[nc:]) if len(a) > nc else None
        carry, ys = lax.scan(f, tuple(a[:nc]), xs, length=kw.get("length"), reverse=kw.get("reverse", False))
        return tuple(carry) + tuple(ys)
    if op == "jit":
        body = build_body(s["bodies"][0], env)
        return jax.jit(body)(*a)
    if op == "tuple_get":
        return a[0][kw["i"]]
    raise KeyError(op)


def dimexpr_eval(e, b, n):
    """e: nested list expression over symbols: ["B"], ["N"], int, ["+",x,y], ["*",x,y], ["//",x,k], ["%",x,k], ["max",x,y], ["min",x,y], ["-",x,y]"""
    if isinstance(e, int):
        return e
    if e == "B":
        return b
    if e == "N":
        return n
    o = e[0]
    x = dimexpr_eval(e[1], b, n)
    y = dimexpr_eval(e[2], b, n)
    if o == "+":
        return x + y
    if o == "-":
        return x - y
    if o == "*":
        return x * y
    if o == "//":
        return x // y
    if o == "%":
        return x % y
    if o == "max":
        import jax.core as jc
        from jax import export as jexport  # noqa: F401

        try:
            from jax._src.export import shape_poly

            return shape_poly.core.max_dim(x, y) if hasattr(shape_poly, "core") else max(x, y)
        except Exception:
            return max(x, y)
    if o == "min":
        try:
            from jax._src import core as jcore

            return jcore.min_dim(x, y)
        except Exception:
            return min(x, y)
    raise KeyError(o)


def build_body(body, outer_env):
    def f(*params):
        env = dict(outer_env)
        for n, v in zip(body["params"], params):
            env[n] = v
        run_stmts(body["stmts"], env)
        outs = tuple(env[o] for o in body["outputs"])
        return outs[0] if len(outs) == 1 and not body.get("tuple") else outs

    return f


def run_stmts(stmts, env):
    for s in stmts:
        r = eval_stmt(s, env)
        if isinstance(s["o"], list):
            for n, v in zip(s["o"], r):
                env[n] = v
        else:
            env[s["o"]] = r


def build(prog):
    def fn(*xs):
        env = {f"x{i}": x for i, x in enumerate(xs)}
        run_stmts(prog["stmts"], env)
        outs = tuple(env[o] for o in prog["outputs"])
        return outs[0] if len(outs) == 1 else outs

    fn.__name__ = "generated_program"
    return fn


def specs(prog, bind=None, x64=False):
    import jax

    out = []
    for dt, shape in prog["inputs"]:
        shp = tuple(shape) if bind is None else tuple(bind[d] if isinstance(d, str) else d for d in shape)
        npdt = NP_DT[dt]
        if x64 and dt == F:
            npdt = np.float64
        out.append(jax.ShapeDtypeStruct(shp, npdt) if static(shp) else (tuple(shp), npdt))
    return out


def input_specs_for_export(prog, double=False):
    """to_onnx `inputs`: ShapeDtypeStructs for static shapes, (shape-with-strings) + dtype otherwise."""
    import jax

    out = []
    for dt, shape in prog["inputs"]:
        npdt = NP_DT[dt]
        if double and dt == F:
            npdt = np.float64
        out.append(jax.ShapeDtypeStruct(tuple(shape), npdt))
    return out


def ops_of(prog):
    acc = []

    def walk(stmts):
        for s in stmts:
            f = s.get("kw", {}).get("f")
            acc.append(s["op"] + (":" + f if isinstance(f, str) else ""))
            for bd in s.get("bodies", []):
                walk(bd["stmts"])

    walk(prog["stmts"])
    return acc


# ----------------------------------------------------------------------------- generation


class PB:
    """Program builder used inside a Hypothesis composite."""

    def __init__(self, draw, prefix="v", counter=None, outer=None):
        self.draw = draw
        self.stmts = []
        self.vals = dict(outer or {})  # name -> (dt, shape)
        self.local = []
        self.counter = counter if counter is not None else [0]
        self.prefix = prefix

    def fresh(self):
        self.counter[0] += 1
        return f"{self.prefix}{self.counter[0]}"

    MAX_NUMEL = 2048

    def emit(self, op, args, dt, shape, kw=None, bodies=None):
        if shape is None:
            return None
        conc = [d if isinstance(d, int) else 7 for d in shape]
        if numel(conc) > self.MAX_NUMEL or len(shape) > 5:
            return None  # keep generated tensors small (tile/pad/stack chains grow geometrically)
        o = self.fresh()
        s = {"o": o, "op": op, "a": list(args)}
        if kw:
            s["kw"] = kw
        if bodies:
            s["bodies"] = bodies
        self.stmts.append(s)
        self.vals[o] = (dt, tuple(shape))
        self.local.append(o)
        return o

    def pick(self, dt=None, pred=None):
        c = [n for n, (d, s) in self.vals.items() if (dt is None or d == dt) and (pred is None or pred(d, s))]
        return self.draw(st.sampled_from(c)) if c else None

    def const_like(self, dt, shape):
        if not static(shape):
            shape = ()
        if dt == F:
            return self.emit("constf", [], F, shape, {"shape": list(shape), "v": self.draw(st.sampled_from([0.5, -1.5, 2.0, 0.0, 3.25, -0.25]))})
        if dt == I:
            return self.emit("consti", [], I, shape, {"shape": list(shape), "v": self.draw(st.integers(-3, 4))})
        c = self.const_like(F, shape)
        z = self.emit("constf", [], F, (), {"shape": [], "v": 0.0})
        return self.emit("cmp", [c, z], B, shape, {"f": "gt"})

    def operand(self, dt, shape):
        """A value of dtype dt broadcast-compatible to `shape` (existing or a constant)."""
        c = [n for n, (d, s) in self.vals.items() if d == dt and bshape(s, shape) == tuple(shape)]
        if c and self.draw(st.integers(0, 4)) > 0:
            return self.draw(st.sampled_from(c))
        opts = [()]
        if static(shape) and len(shape) >= 1:
            opts += [tuple(shape), (shape[-1],)]
        return self.const_like(dt, self.draw(st.sampled_from(opts)))

    # one random step; returns the new value name (or None)
    def step(self, allow=("ew", "shape", "red", "linalg", "index", "cast")):
        src = self.pick()
        if src is None:
            return None
        dt, shape = self.vals[src]
        fams = []
        if "ew" in allow:
            fams += ["un", "bin", "bin", "cmp", "where", "clip"]
            if dt in (I, B) and static(shape):
                fams += ["promo", "promo"]
        if "shape" in allow and len(shape) >= 1:
            fams += ["transpose", "reshape", "expand", "slice", "concat", "flip", "bcast", "bcast_in_dim", "pad", "tile", "squeeze", "stack", "swapaxes", "arange_f"]
        if "red" in allow and len(shape) >= 1:
            fams += ["red", "red", "argred"]
        if "linalg" in allow and dt == F and len(shape) >= 1:
            fams += ["matmul", "einsum"]
        if "index" in allow and len(shape) >= 1:
            fams += ["take", "one_hot", "sort", "dynslice"]
        if "cast" in allow:
            fams += ["cast", "cast_rt"]
        fam = self.draw(st.sampled_from(fams))
        d = self.draw
        if fam == "un":
            if dt == F:
                return self.emit("un_f", [src], F, shape, {"f": d(st.sampled_from(UN_F_NAMES))})
            if dt == I:
                return self.emit("un_i", [src], I, shape, {"f": d(st.sampled_from(UN_I_NAMES))})
            return self.emit("not", [src], B, shape)
        if fam == "promo":
            f = d(st.sampled_from([n for n in (PROMO_NAMES if dt == I else ["add_f", "mul_f", "where_f", "cast_div", "mean", "mean_all"]) if n not in PROMO_KNOWN_BROKEN]))
            red = PROMO_REDUCING.get(f)
            oshape = shape if red is None else (() if red == "all" or not shape else tuple(shape[:-1]))
            return self.emit("promo", [src], F, oshape, {"f": f})
        if fam == "bin":
            other = self.operand(dt, shape)
            oshape = bshape(self.vals[other][1], shape)
            args = [src, other] if d(st.booleans()) else [other, src]
            if dt == F:
                return self.emit("bin_f", args, F, oshape, {"f": d(st.sampled_from(BIN_F_NAMES))})
            if dt == I:
                return self.emit("bin_i", args, I, oshape, {"f": d(st.sampled_from(BIN_I_NAMES))})
            return self.emit(d(st.sampled_from(["and", "or"])), args, B, oshape)
        if fam == "cmp":
            if dt == B:
                return self.emit("not", [src], B, shape)
            other = self.operand(dt, shape)
            return self.emit("cmp", [src, other], B, bshape(self.vals[other][1], shape), {"f": d(st.sampled_from(CMP_NAMES))})
        if fam == "where":
            c = self.pick(B, lambda dd, s: s == shape)
            if c is None:
                z = self.operand(dt, shape) if dt != B else src
                if dt == B:
                    return self.emit("not", [src], B, shape)
                c = self.emit("cmp", [src, z], B, bshape(self.vals[z][1], shape), {"f": "gt"})
                if self.vals[c][1] != tuple(shape):
                    return c
            if dt == B:
                return self.emit("and", [src, c], B, shape)
            other = self.operand(dt, shape)
            return self.emit("where", [c, src, other], dt, shape)
        if fam == "clip":
            if dt == B:
                return self.emit("not", [src], B, shape)
            lo, hi = (-1.0, 1.5) if dt == F else (-2, 3)
            return self.emit("clip", [src], dt, shape, {"lo": lo, "hi": hi})
        if fam == "transpose" and len(shape) >= 2:
            perm = list(d(st.permutations(range(len(shape)))))
            return self.emit("transpose", [src], dt, tuple(shape[i] for i in perm), {"perm": perm})
        if fam == "swapaxes" and len(shape) >= 2:
            a1, a2 = d(st.integers(-len(shape), len(shape) - 1)), d(st.integers(-len(shape), len(shape) - 1))
            shp = list(shape)
            shp[a1], shp[a2] = shp[a2], shp[a1]
            return self.emit("swapaxes", [src], dt, tuple(shp), {"a1": a1, "a2": a2})
        if fam == "reshape" and static(shape) and numel(shape) > 0:
            n = numel(shape)
            opts = [s for s in SHAPES if numel(s) == n and s != tuple(shape)] + [(n,), (1, n), (n, 1)]
            tgt = d(st.sampled_from(opts))
            spec = list(tgt)
            if len(spec) >= 1 and d(st.booleans()):
                spec[d(st.integers(0, len(spec) - 1))] = -1
            return self.emit("reshape", [src], dt, tgt, {"shape": spec})
        if fam == "reshape" and not static(shape) and shape[0] == "B" and static(shape[1:]):
            rest = numel(shape[1:])
            tgt = d(st.sampled_from([("B", rest), ("B", 1, rest), ("B", rest, 1)]))
            spec = [(-1 if x == "B" else x) for x in tgt] if d(st.booleans()) else list(tgt)
            return self.emit("reshape", [src], dt, tgt, {"shape": spec})
        if fam == "expand":
            ax = d(st.integers(-len(shape) - 1, len(shape)))
            pos = ax if ax >= 0 else ax + len(shape) + 1
            shp = list(shape)
            shp.insert(pos, 1)
            return self.emit("expand_dims", [src], dt, tuple(shp), {"axis": ax})
        if fam == "squeeze":
            ones = [i for i, x in enumerate(shape) if x == 1]
            if ones:
                ax = d(st.sampled_from(ones))
                return self.emit("squeeze", [src], dt, tuple(x for i, x in enumerate(shape) if i != ax), {"axis": ax})
            return None
        if fam == "slice" and static(shape):
            idx, shp = [], []
            for n in shape:
                lo = d(st.integers(0, max(0, n - 1)))
                hi = d(st.integers(lo + 1, n)) if n > 0 else 0
                step = d(st.sampled_from([1, 1, 2, -1])) if n > 1 else 1
                if step == -1:
                    sl = (hi - 1, lo - 1 if lo > 0 else None, -1)
                    ln = hi - lo
                else:
                    sl = (lo, hi, step)
                    ln = len(range(lo, hi, step))
                idx.append(list(sl))
                shp.append(ln)
            return self.emit("slice", [src], dt, tuple(shp), {"idx": idx})
        if fam == "slice" and not static(shape) and len(shape) >= 2 and static(shape[1:]):
            idx = [[None, None, 1]] + [[0, max(1, n - 1), 1] for n in shape[1:]]
            return self.emit("slice", [src], dt, (shape[0],) + tuple(max(1, n - 1) for n in shape[1:]), {"idx": idx})
        if fam == "concat":
            ax = d(st.integers(0, len(shape) - 1))
            if isinstance(shape[ax], str):
                return None
            others = [n for n, (dd, s) in self.vals.items() if dd == dt and len(s) == len(shape) and all(s[i] == shape[i] for i in range(len(shape)) if i != ax) and isinstance(s[ax], int)]
            o = d(st.sampled_from(others))
            shp = list(shape)
            shp[ax] = shape[ax] + self.vals[o][1][ax]
            return self.emit("concat", [src, o], dt, tuple(shp), {"axis": ax})
        if fam == "stack":
            others = [n for n, (dd, s) in self.vals.items() if dd == dt and s == shape]
            o = d(st.sampled_from(others))
            ax = d(st.integers(0, len(shape)))
            shp = list(shape)
            shp.insert(ax, 2)
            return self.emit("stack", [src, o], dt, tuple(shp), {"axis": ax})
        if fam == "flip":
            ax = d(st.integers(0, len(shape) - 1))
            return self.emit("flip", [src], dt, shape, {"axis": ax})
        if fam == "arange_f" and dt == F and static(shape) and numel(shape) > 0:
            start, stop, step = d(st.sampled_from(ARANGE_F))
            n = len(np.arange(start, stop, step))
            return self.emit("arange_f", [src], F, (n,), {"start": start, "stop": stop, "step": step})
        if fam == "bcast" and static(shape):
            tgt = (2,) + tuple(shape) if len(shape) < 3 else None
            cands = [s for s in SHAPES if s != tuple(shape) and bshape(shape, s) == s]
            if tgt:
                cands.append(tgt)
            if not cands:
                return None
            tg = d(st.sampled_from(cands))
            return self.emit("bcast", [src], dt, tg, {"shape": list(tg)})
        if fam == "bcast_in_dim" and static(shape) and 1 <= len(shape) <= 2:
            # rank-changing lax.broadcast_in_dim; size-1 operand axes may be mapped to larger result axes
            new_axis = d(st.sampled_from([2, 4]))
            res = [new_axis] + [x if x != 1 else d(st.sampled_from([1, 3])) for x in shape]
            dims = list(range(1, len(shape) + 1))
            if d(st.booleans()):
                res = ["B"] + res[1:] if any(isinstance(x, str) for _, (dd, ss) in self.vals.items() for x in ss) and False else res
            return self.emit("bcast_in_dim", [src], dt, tuple(res), {"shape": res, "dims": dims})
        if fam == "pad" and static(shape) and dt != B:
            widths = [[d(st.integers(0, 1)), d(st.integers(0, 2))] for _ in shape]
            shp = tuple(n + w[0] + w[1] for n, w in zip(shape, widths))
            return self.emit("pad", [src], dt, shp, {"widths": widths, "cv": 0})
        if fam == "tile" and static(shape):
            reps = [d(st.integers(1, 2)) for _ in shape]
            return self.emit("tile", [src], dt, tuple(n * r for n, r in zip(shape, reps)), {"reps": reps})
        if fam == "red":
            ax = d(st.integers(-len(shape), len(shape) - 1))
            pos = ax % len(shape)
            keep = d(st.booleans())
            shp = tuple(1 if i == pos else x for i, x in enumerate(shape)) if keep else tuple(x for i, x in enumerate(shape) if i != pos)
            if dt == F:
                return self.emit("red", [src], F, shp, {"k": F, "f": d(st.sampled_from(RED_F_NAMES)), "axis": ax, "keepdims": keep})
            if dt == I:
                return self.emit("red", [src], I, shp, {"k": I, "f": d(st.sampled_from(RED_I_NAMES)), "axis": ax, "keepdims": keep})
            return self.emit("red", [src], B, shp, {"k": B, "f": d(st.sampled_from(["any", "all"])), "axis": ax, "keepdims": keep})
        if fam == "argred" and dt != B:
            ax = d(st.integers(0, len(shape) - 1))
            if isinstance(shape[ax], str):
                return None
            return self.emit("argred", [src], I, tuple(x for i, x in enumerate(shape) if i != ax), {"f": d(st.sampled_from(["argmax", "argmin"])), "axis": ax})
        if fam == "matmul" and isinstance(shape[-1], int):
            k = shape[-1]
            m = d(st.sampled_from([1, 2, 3]))
            w = self.emit("const_arr", [], F, (k, m), {"dt": F, "shape": [k, m], "v": [round(0.25 * ((i * 7) % 9 - 4), 3) for i in range(k * m)]})
            return self.emit("matmul", [src, w], F, tuple(shape[:-1]) + (m,))
        if fam == "einsum" and len(shape) == 2 and static(shape):
            k = shape[1]
            w = self.emit("const_arr", [], F, (k, 2), {"dt": F, "shape": [k, 2], "v": [round(0.5 * ((i * 5) % 7 - 3), 3) for i in range(k * 2)]})
            return self.emit("einsum", [src, w], F, (shape[0], 2), {"spec": "ij,jk->ik"})
        if fam == "take" and static(shape):
            ax = d(st.integers(0, len(shape) - 1))
            idx = self.pick(I, lambda dd, s: s in ((), (2,), (3,)) or (static(s) and len(s) == 1))
            if idx is None:
                idx = self.emit("const_arr", [], I, (2,), {"dt": I, "shape": [2], "v": [d(st.integers(0, 4)), d(st.integers(-2, 6))]})
            ishape = self.vals[idx][1]
            return self.emit("take", [src, idx], dt, tuple(shape[:ax]) + tuple(ishape) + tuple(shape[ax + 1:]), {"axis": ax})
        if fam == "one_hot" and dt == I and static(shape):
            n = d(st.sampled_from([2, 3, 5]))
            return self.emit("one_hot", [src], F, tuple(shape) + (n,), {"n": n})
        if fam == "sort" and dt != B:
            ax = d(st.integers(0, len(shape) - 1))
            return self.emit("sort", [src], dt, shape, {"axis": ax})
        if fam == "dynslice" and static(shape) and shape[0] >= 2:
            i = self.pick(I, lambda dd, s: s == ())
            if i is None:
                i = self.emit("consti", [], I, (), {"shape": [], "v": d(st.integers(-1, 4))})
            size = d(st.integers(1, shape[0] - 1))
            return self.emit("dynslice", [src, i], dt, (size,) + tuple(shape[1:]), {"size": size})
        if fam == "cast":
            to = d(st.sampled_from([x for x in (F, I, B) if x != dt]))
            if dt == F and to == I:
                c = self.emit("clip", [src], F, shape, {"lo": -100.0, "hi": 100.0})
                return self.emit("cast", [c], I, shape, {"to": I})
            return self.emit("cast", [src], to, shape, {"to": to})
        if fam == "cast_rt" and dt != B:
            if dt == F:
                return self.emit("cast_rt", [src], F, shape, {"via": "f16", "clip": [-6.0e4, 6.0e4]})
            via = d(st.sampled_from(["i8", "u8", "i16", "f"]))
            rng = {"i8": [-128, 127], "u8": [0, 255], "i16": [-32768, 32767], "f": [-(2**24), 2**24]}[via]
            return self.emit("cast_rt", [src], I, shape, {"via": via, "clip": rng})
        return None


@st.composite
def programs(draw, max_stmts=8, symbolic=False, allow=("ew", "shape", "red", "linalg", "index", "cast"), n_outputs=(1, 2),
             input_kinds=(F, F, F, I), structure=None):
    """structure: optional callable(pb, draw) that appends control-flow statements (see vf.cfgen)."""
    ninp = draw(st.integers(1, 3))
    inputs = []
    pb = PB(draw)
    for i in range(ninp):
        dt = draw(st.sampled_from(list(input_kinds)))
        shp = draw(st.sampled_from(SYM_SHAPES if (symbolic and (i == 0 or draw(st.booleans()))) else SHAPES))
        inputs.append([dt, list(shp)])
        pb.vals[f"x{i}"] = (dt, tuple(shp))
    n = draw(st.integers(1, max_stmts))
    for k in range(n):
        if structure is not None and draw(st.integers(0, 3)) == 0:
            structure(pb, draw)
        else:
            pb.step(allow)
    produced = [s["o"] for s in pb.stmts if not isinstance(s["o"], list)]
    produced = [o for o in produced if o in pb.vals]
    if not produced:
        o = pb.emit("un_f" if inputs[0][0] == F else ("un_i" if inputs[0][0] == I else "not"), ["x0"], inputs[0][0], tuple(inputs[0][1]),
                    {"f": "abs"} if inputs[0][0] != B else None)
        produced = [o]
    k = draw(st.integers(n_outputs[0], min(n_outputs[1], len(produced))))
    outs = [produced[-1]]
    extra = draw(st.lists(st.sampled_from(produced), min_size=k - 1, max_size=k - 1, unique=True)) if k > 1 else []
    for e in extra:
        if e not in outs:
            outs.append(e)
    prog = {"inputs": inputs, "stmts": pb.stmts, "outputs": outs, "types": {o: [pb.vals[o][0], list(pb.vals[o][1])] for o in outs}}
    return prune(prog)


def prune(prog):
    """Remove statements no output depends on (keeps programs small and replay files readable)."""
    need = set(prog["outputs"])

    def free_names(body, bound):
        names = set()
        b = set(bound) | set(body["params"])
        for s in body["stmts"]:
            names.update(x for x in s.get("a", []) if x not in b)
            for bd in s.get("bodies", []):
                names.update(free_names(bd, b))
            b.update(s["o"] if isinstance(s["o"], list) else [s["o"]])
        names.update(x for x in body["outputs"] if x not in b)
        return names

    keep = []
    for s in reversed(prog["stmts"]):
        outs = s["o"] if isinstance(s["o"], list) else [s["o"]]
        if any(o in need for o in outs):
            keep.append(s)
            need.update(s.get("a", []))
            for bd in s.get("bodies", []):
                need.update(free_names(bd, set()))
    keep.reverse()
    return dict(prog, stmts=keep)


# ----------------------------------------------------------------------------- inputs

POOL_F = [0.0, -0.0, 0.5, -0.5, 1.5, -1.5, 2.5, -2.5, 3.5, -3.5, 1.0, -1.0, 2.0, -2.0, 3.0, -7.25, 1e-3, -1e-3, 0.49999997, -0.49999997,
          40.0, -40.0, 88.0, -88.0, 1e-20, 100.5, -100.5, 6.0, -6.0, 1e4, -1e4]


def draw_inputs(draw, prog, bind=None):
    feeds = []
    for dt, shape in prog["inputs"]:
        shp = tuple(bind[d] if isinstance(d, str) else d for d in shape) if bind else tuple(shape)
        n = int(np.prod(shp)) if shp else 1
        if dt == F:
            mode = draw(st.sampled_from(["pool", "normal", "mixed"]))
            seed = draw(st.integers(0, 2**31 - 1))
            rng = np.random.default_rng(seed)
            if mode == "pool":
                v = rng.choice(np.asarray(POOL_F, np.float32), size=n)
            elif mode == "normal":
                v = (rng.standard_normal(n) * draw(st.sampled_from([0.25, 2.0, 30.0]))).astype(np.float32)
            else:
                v = np.where(rng.random(n) < 0.4, rng.choice(np.asarray(POOL_F, np.float32), size=n), (rng.standard_normal(n) * 3).astype(np.float32))
            feeds.append(np.asarray(v, np.float32).reshape(shp))
        elif dt == I:
            seed = draw(st.integers(0, 2**31 - 1))
            rng = np.random.default_rng(seed)
            lo, hi = draw(st.sampled_from([(-5, 9), (0, 5), (-130, 300), (-40000, 70000)]))
            feeds.append(rng.integers(lo, hi, size=shp).astype(np.int32))
        else:
            seed = draw(st.integers(0, 2**31 - 1))
            feeds.append(np.random.default_rng(seed).integers(0, 2, size=shp).astype(np.bool_))
    return feeds
