import sys, os, json, warnings, collections, copy
warnings.filterwarnings("ignore")
sys.path.insert(0,'/tmp'); sys.path.insert(0,'/repo')
import numpy as np, jax, jax.numpy as jnp, onnx
import logging; logging.disable(logging.CRITICAL)
from jax2onnx import to_onnx
import jitfix
from jax2onnx.plugins.plugin_system import PLUGIN_REGISTRY, EXAMPLE_REGISTRY, import_all_plugins
import onnxruntime as ort
ort.set_default_logger_severity(4)
import_all_plugins()
cases=[]
for name, plugin in PLUGIN_REGISTRY.items():
    md = getattr(plugin,'metadata',None)
    if not md: continue
    for tc in md.get('testcases',[]): cases.append((md.get('context'), md.get('component'), tc))
for md in EXAMPLE_REGISTRY.values():
    for tc in md.get('testcases',[]): cases.append((md.get('context'), md.get('component'), tc))
step=int(sys.argv[1]); off=int(sys.argv[2])
sel=[c for i,c in enumerate(cases) if i%step==off]
NP={1:np.float32,2:np.uint8,3:np.int8,4:np.uint16,5:np.int16,6:np.int32,7:np.int64,9:np.bool_,10:np.float16,11:np.float64,12:np.uint32,13:np.uint64}
out=[]
for ctx,comp,tc in sel:
    if tc.get("skip_numeric_validation"): continue
    try:
        fn = tc.get("callable")
        if getattr(fn,"__jax2onnx_factory__",False): fn = fn.with_dtype(jnp.float32).instantiate()
        shapes=tc.get("input_shapes"); dts=tc.get("input_dtypes"); vals=tc.get("input_values")
        rng=np.random.default_rng(0)
        def rand(shape,dt,B):
            shape=tuple(B if isinstance(d,str) else d for d in shape); dt=np.dtype(dt)
            if np.issubdtype(dt,np.floating): return np.asarray(rng.standard_normal(shape)*0.25).astype(dt)
            if np.issubdtype(dt,np.integer): return np.asarray(rng.integers(0,5,shape)).astype(dt)
            if dt==np.bool_: return np.asarray(rng.random(shape)>0.5)
            return np.asarray(rng.standard_normal(shape)).astype(dt)
        if shapes is not None:
            dd=list(dts) if dts else [np.float32]*len(shapes)
            specs=[jax.ShapeDtypeStruct(tuple(s),d) for s,d in zip(shapes,dd)] if dts else [tuple(s) for s in shapes]
            mk=lambda B:[rand(s,d,B) for s,d in zip(shapes,dd)]
        elif vals is not None:
            base=[np.asarray(v) for v in vals]; base=[f.astype(np.float32) if f.dtype==np.float64 else (f.astype(np.int32) if f.dtype==np.int64 else f) for f in base]
            specs=[jax.ShapeDtypeStruct(f.shape,f.dtype) for f in base]; mk=lambda B:base
        else: specs=[]; mk=lambda B:[]
        kw={}
        for k in ("inputs_as_nchw","outputs_as_nchw","normalization_mode","input_params"):
            if tc.get(k) is not None: kw[k]=tc[k]
        if tc.get("opset_version"): kw["opset"]=tc["opset_version"]
        m=to_onnx(fn, specs, **kw)
        if m.ByteSize()>50_000_000: continue
        m2=copy.deepcopy(m)
        existing={o.name for o in m2.graph.output}
        ann={vi.name:vi for vi in m2.graph.value_info}
        produced={o for n in m2.graph.node for o in n.output}
        for name,vi in ann.items():
            if name in existing or name not in produced: continue
            if not vi.type.HasField("tensor_type"): continue
            m2.graph.output.append(vi)
        s=ort.InferenceSession(m2.SerializeToString(),providers=["CPUExecutionProvider"])
        params=tc.get("input_params") or {}
        for B in (3,5):
            feeds=mk(B)
            for i in (tc.get("inputs_as_nchw") or []): feeds[i]=np.transpose(feeds[i],(0,3,1,2))
            fd={}; it=iter(feeds)
            for i in s.get_inputs():
                fd[i.name]=np.asarray(params[i.name]) if i.name in params else next(it)
            got=s.run(None,fd)
            probs=[]; sym={}
            for o,g in zip(m2.graph.output,got):
                tt=o.type.tensor_type
                if tt.elem_type in NP and np.dtype(NP[tt.elem_type])!=g.dtype: probs.append((o.name,"dtype",tt.elem_type,str(g.dtype)))
                if tt.HasField("shape"):
                    dims=list(tt.shape.dim)
                    if len(dims)!=g.ndim: probs.append((o.name,"rank",len(dims),g.ndim)); continue
                    for ax,(d,r) in enumerate(zip(dims,g.shape)):
                        if d.HasField("dim_value") and d.dim_value!=r: probs.append((o.name,"dim",ax,d.dim_value,r))
                        elif d.HasField("dim_param") and d.dim_param:
                            if d.dim_param in sym and sym[d.dim_param]!=r: probs.append((o.name,"symconflict",d.dim_param,sym[d.dim_param],r))
                            sym.setdefault(d.dim_param,r)
            if probs: out.append({"ctx":ctx,"comp":comp,"tc":tc["testcase"],"B":B,"probs":[list(map(str,p)) for p in probs[:4]],"n_out":len(got)}); break
            if not any(isinstance(d,str) for s_ in (shapes or []) for d in s_): break
    except Exception as e:
        out.append({"ctx":ctx,"comp":comp,"tc":tc["testcase"],"err":f"{type(e).__name__}: {str(e)[:150]}"})
json.dump(out, open(f"/tmp/scratch/ann_{off}.json","w"))
