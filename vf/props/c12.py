"""C12 — layout flags only add boundary transposes."""

from __future__ import annotations

import itertools

import numpy as np

from vf.core import Acc, derive_seed, digest

PROPERTY = "C12"
LEVEL = "exploration"
RULE = (
    "Hypothesis-generated image programs (1-2 four-dimensional NHWC inputs plus an optional vector input; steps drawn from conv (nnx.Conv / "
    "lax.conv_general_dilated), avg/max pooling, batch-norm style scale+bias, residual add of the second image, relu/tanh, internal transposes, "
    "spatial reductions; 1-4 outputs mixing 4-D and lower-rank values, 4-D keepdims reductions taken directly behind the input boundary, passthrough "
    "and duplicated outputs incl. one reduction result observed twice under different flags; static or symbolic batch) x every subset "
    "of eligible input and output indices (quick: up to 6 subsets per program) plus invalid requests (out of range, negative, duplicate, non-4-D, bool). "
    "Oracle (metamorphic + reference): ORT(flagged)(P.x) == P.ORT(plain)(x) on selected outputs and identical on the others, both equal eager JAX; "
    "declared I/O shapes are the permuted ones; invalid requests raise ValueError. non-trivial = non-empty index subset; distinct by (program digest, subset)."
)
ASSUMPTIONS = [
    "P is the NHWC->NCHW permutation (0,3,1,2); the plain export and eager JAX are the references",
    "floats compared with rtol 2e-4 / atol 2e-5*scale (conv accumulations differ in the last bits between XLA and ORT)",
]

P_NCHW = (0, 3, 1, 2)
STEPS = ["conv", "laxconv", "relu", "tanh", "avgpool", "maxpool", "add_x2", "scale_bias", "t_internal", "mul_vec", "pad_crop"]


def prog_strategy():
    from hypothesis import strategies as st

    step = st.one_of(
        st.tuples(st.sampled_from(["conv", "laxconv"]), st.integers(0, 3), st.sampled_from([1, 3])).map(list),
        st.tuples(st.sampled_from(["relu", "tanh", "avgpool", "maxpool", "add_x2", "scale_bias", "t_internal", "mul_vec", "bcast_like", "ones_like_cat"])).map(list),
    )
    out = st.sampled_from(["h", "h", "x", "mean_hw", "mean_c", "h2", "sum_all", "h_dup",
                           "mean_hw_keep", "xmean_keep", "xmean_keep", "xmax_keep", "xsum_c_keep"])
    return st.fixed_dictionaries({
        "steps": st.lists(step, min_size=1, max_size=5),
        "outs": st.lists(out, min_size=1, max_size=3),
        "dup": st.booleans(),  # observe the first result a second time (one value, two outputs, independently flagged)
        "two": st.booleans(),
        "vec": st.booleans(),
        "sym": st.booleans(),
        "symhw": st.booleans(),
        "hw": st.sampled_from([4, 5, 6]),
        "c": st.sampled_from([2, 3]),
    })


_CONV_CACHE = {}


def _outs(pg):
    return list(pg["outs"]) + ([pg["outs"][0]] if pg.get("dup") else [])


def make_fn(pg):
    import jax
    import jax.numpy as jnp
    from flax import nnx
    from jax import lax

    c = pg["c"]
    convs = {}
    for i, s in enumerate(pg["steps"]):
        if s[0] == "conv":
            convs[i] = nnx.Conv(c, c, kernel_size=(s[2], s[2]), padding="SAME", rngs=nnx.Rngs(s[1]))
        elif s[0] == "laxconv":
            convs[i] = jnp.asarray(np.random.RandomState(s[1]).randn(s[2], s[2], c, c).astype(np.float32) * 0.3)

    def fn(*args):
        x = args[0]
        k = 1
        x2 = args[k] if pg["two"] else x * 0.5
        k += 1 if pg["two"] else 0
        vec = args[k] if pg["vec"] else jnp.linspace(0.5, 1.5, c, dtype=x.dtype)
        h = x
        for i, s in enumerate(pg["steps"]):
            t = s[0]
            if t == "conv":
                h = convs[i](h)
            elif t == "laxconv":
                h = lax.conv_general_dilated(h, convs[i].astype(h.dtype), (1, 1), "SAME", dimension_numbers=("NHWC", "HWIO", "NHWC"))
            elif t == "relu":
                h = jax.nn.relu(h)
            elif t == "tanh":
                h = jnp.tanh(h)
            elif t == "avgpool":
                h = nnx.avg_pool(h, window_shape=(2, 2), strides=(1, 1), padding="SAME")
            elif t == "maxpool":
                h = nnx.max_pool(h, window_shape=(2, 2), strides=(1, 1), padding="SAME")
            elif t == "add_x2":
                h = h + x2
            elif t == "scale_bias":
                h = h * 1.5 - 0.25
            elif t == "t_internal":
                h = jnp.transpose(jnp.tanh(jnp.transpose(h, (0, 3, 1, 2))), (0, 2, 3, 1))
            elif t == "mul_vec":
                h = h * vec
            elif t == "bcast_like":  # reads the runtime extents of the image
                h = h + jnp.broadcast_to(jnp.mean(h, axis=(1, 2), keepdims=True), h.shape) * 0.5
            elif t == "ones_like_cat":
                h = jnp.concatenate([h, jnp.ones_like(h)], axis=3)[..., : h.shape[3]] + h * 0.0
        outs = []
        seen = {}
        for o in _outs(pg):
            if pg.get("dup") and o in seen:  # the very same value observed again
                outs.append(seen[o])
                continue
            seen[o] = None
            if o == "h":
                outs.append(h)
            elif o == "h_dup":
                outs.append(h + 0.0)
            elif o == "x":
                outs.append(x * 2.0)
            elif o == "h2":
                outs.append(jnp.maximum(h, x2))
            elif o == "mean_hw":
                outs.append(jnp.mean(h, axis=(1, 2)))
            elif o == "mean_c":
                outs.append(jnp.mean(h, axis=3))
            elif o == "sum_all":
                outs.append(jnp.sum(h))
            # 4-D reductions (keepdims): selectable outputs whose producer is the reducer the transpose-reduce fold rewrites;
            # the x* forms sit directly behind the input boundary transpose, and a repeated entry observes one value twice
            elif o == "mean_hw_keep":
                outs.append(jnp.mean(h, axis=(1, 2), keepdims=True))
            elif o == "xmean_keep":
                outs.append(jnp.mean(x, axis=(1, 2), keepdims=True))
            elif o == "xmax_keep":
                outs.append(jnp.max(x, axis=(1, 2), keepdims=True))
            elif o == "xsum_c_keep":
                outs.append(jnp.sum(x, axis=3, keepdims=True))
            seen[o] = outs[-1]
        return tuple(outs)

    return fn


def io_desc(pg):
    b = "B" if pg["sym"] else 2
    hh, ww = ("H", "W") if pg.get("symhw") else (pg["hw"], pg["hw"])
    ins = [(b, hh, ww, pg["c"])]
    if pg["two"]:
        ins.append((b, hh, ww, pg["c"]))
    if pg["vec"]:
        ins.append((pg["c"],))
    out_rank = {"h": 4, "h_dup": 4, "x": 4, "h2": 4, "mean_hw": 2, "mean_c": 3, "sum_all": 0,
                "mean_hw_keep": 4, "xmean_keep": 4, "xmax_keep": 4, "xsum_c_keep": 4}
    outs = [out_rank[o] for o in _outs(pg)]
    return ins, outs


def _close(a, b):
    a, b = np.asarray(a), np.asarray(b)
    if a.shape != b.shape:
        return False
    fin = np.isfinite(b)
    if not fin.any():
        return True
    scale = max(1.0, float(np.abs(b[fin]).max()))
    return bool(np.allclose(a[fin], b[fin], rtol=2e-4, atol=2e-5 * scale))


def check_prog(pg, subsets, feed_seed, acc=None, invalid=True):
    import jax
    import jax.numpy as jnp
    from vf import jaxutil, onnxutil

    out = []
    fn = make_fn(pg)
    ins, out_ranks = io_desc(pg)
    specs = [jax.ShapeDtypeStruct(s, np.float32) for s in ins]
    case = {"kind": "layout", "pg": pg, "feed_seed": feed_seed}
    try:
        plain = jaxutil.to_onnx(fn, specs)
        ps = onnxutil.session(plain)
    except Exception as e:
        if acc:
            acc.tally("status", "plain_export_rejected")
            acc.tally("rejected_reasons", f"{type(e).__name__}: {str(e)[:80]}")
            acc.case()
        return out
    rng = np.random.default_rng(feed_seed)
    bind = 3 if pg["sym"] else 2
    bmap = {"B": bind, "H": pg["hw"], "W": pg["hw"] + 1}
    feeds = [(rng.standard_normal(tuple(bmap.get(d, d) for d in s)) * 1.5).astype(np.float32) for s in ins]
    ref = jaxutil.flatten(fn(*[jnp.asarray(f) for f in feeds]))
    base = ps.run(None, {i.name: f for i, f in zip(ps.get_inputs(), feeds)})
    if not all(_close(g, r) for g, r in zip(base, ref)):
        if acc:
            acc.tally("status", "plain_export_differs_from_jax(C01)")
        return out
    in4 = [i for i, s in enumerate(ins) if len(s) == 4]
    out4 = [i for i, r in enumerate(out_ranks) if r == 4]
    for I, O in subsets:
        I = [i for i in I if i in in4]
        O = [o for o in O if o in out4]
        sub = {"inputs_as_nchw": I, "outputs_as_nchw": O}
        subset_class = ("in" if I else "") + ("out" if O else "") or "empty"
        try:
            fl = jaxutil.to_onnx(fn, specs, inputs_as_nchw=I or None, outputs_as_nchw=O or None)
            fs = onnxutil.session(fl)
        except Exception as e:
            out.append({"sig": {"kind": "flagged_export_raised", "subset_class": subset_class}, "case": dict(case, subsets=[[I, O]]),
                        "detail": f"{sub}: {type(e).__name__}: {str(e)[:200]}"})
            break
        gi = fs.get_inputs()
        if len(gi) != len(feeds):
            out.append({"sig": {"kind": "input_count", "subset_class": subset_class}, "case": dict(case, subsets=[[I, O]]),
                        "detail": f"{sub}: {len(gi)} inputs vs {len(feeds)}"})
            break
        ffeeds = [np.transpose(f, P_NCHW) if i in I else f for i, f in enumerate(feeds)]
        # declared shapes
        bad = None
        for i, (v, f) in enumerate(zip(fl.graph.input, ffeeds)):
            dims = [d.dim_value if d.HasField("dim_value") else None for d in v.type.tensor_type.shape.dim]
            if len(dims) != f.ndim or any(d is not None and d != e for d, e in zip(dims, f.shape)):
                bad = f"input {i} declares {dims}, NCHW-selected feed has shape {f.shape}"
        try:
            got = fs.run(None, {i.name: f for i, f in zip(gi, ffeeds)})
        except Exception as e:
            out.append({"sig": {"kind": "ort_runtime_error", "subset_class": subset_class}, "case": dict(case, subsets=[[I, O]]),
                        "detail": f"{sub}: {str(e)[:250]}"})
            break
        if acc:
            acc.case(key=("layout", digest(pg), tuple(I), tuple(O)), nontrivial=bool(I or O))
            acc.tally("subset_class", subset_class)
        if len(got) != len(base):
            bad = f"{len(got)} outputs vs {len(base)}"
        else:
            for oi, (g, b, r) in enumerate(zip(got, base, ref)):
                want = np.transpose(b, P_NCHW) if oi in O else b
                wantj = np.transpose(r, P_NCHW) if oi in O else r
                if not _close(g, want) or not _close(g, wantj):
                    bad = f"output {oi} ({'selected' if oi in O else 'not selected'}): shape {g.shape} vs expected {want.shape}; differs from P.plain / P.jax"
                    break
                dims = [d.dim_value if d.HasField("dim_value") else None for d in fl.graph.output[oi].type.tensor_type.shape.dim]
                if len(dims) == g.ndim and any(d is not None and d != e for d, e in zip(dims, g.shape)):
                    bad = f"output {oi} declares {dims} but runtime shape is {g.shape}"
                    break
        if bad:
            out.append({"sig": {"kind": "layout_mismatch", "subset_class": subset_class}, "case": dict(case, subsets=[[I, O]]), "detail": f"{sub}: {bad}"})
            break
    if invalid and not out:
        n_in, n_out = len(ins), len(out_ranks)
        non4_in = [i for i in range(n_in) if i not in in4]
        non4_out = [i for i in range(n_out) if i not in out4]
        reqs = [({"inputs_as_nchw": [n_in]}, "out_of_range_in"), ({"outputs_as_nchw": [n_out]}, "out_of_range_out"),
                ({"inputs_as_nchw": [-1]}, "negative_in"), ({"inputs_as_nchw": [0, 0]}, "duplicate_in"), ({"outputs_as_nchw": [True]}, "bool_out")]
        if non4_in:
            reqs.append(({"inputs_as_nchw": [non4_in[0]]}, "non4d_in"))
        if non4_out:
            reqs.append(({"outputs_as_nchw": [non4_out[0]]}, "non4d_out"))
        for kw, label in reqs:
            try:
                jaxutil.to_onnx(fn, specs, **kw)
            except (ValueError, TypeError):
                if acc:
                    acc.tally("invalid_requests", label + "=rejected")
                continue
            except Exception as e:
                if acc:
                    acc.tally("invalid_requests", label + "=raised_" + type(e).__name__)
                continue
            if acc:
                acc.tally("invalid_requests", label + "=ACCEPTED")
            out.append({"sig": {"kind": "invalid_request_accepted", "request": label}, "case": dict(case, invalid=[label]),
                        "detail": f"{kw} was accepted for a program with {n_in} inputs (4-D: {in4}) and {n_out} outputs (4-D: {out4})"})
            break
    return out


def all_subsets(in4, out4, limit, rng):
    subs = []
    for k in range(len(in4) + 1):
        for I in itertools.combinations(in4, k):
            for j in range(len(out4) + 1):
                for O in itertools.combinations(out4, j):
                    if I or O:
                        subs.append((list(I), list(O)))
    if limit and len(subs) > limit:
        idx = sorted(rng.choice(len(subs), size=limit, replace=False).tolist())
        subs = [subs[i] for i in idx]
    return subs


def plan(tier, seed):
    n = 16 if tier == "quick" else 48
    return [{"kind": "layout", "shard": i, "seed": seed, "examples": 6 if tier == "quick" else 90, "limit": 6 if tier == "quick" else 0} for i in range(n)]


def work(sh):
    import hypothesis
    from hypothesis import HealthCheck, Phase, given, settings, strategies as st

    acc = Acc()

    @hypothesis.seed(derive_seed(sh["seed"], "c12", sh["shard"]))
    @settings(max_examples=sh["examples"], deadline=None, database=None, suppress_health_check=list(HealthCheck),
              phases=[Phase.generate], report_multiple_bugs=False)
    @given(prog_strategy(), st.integers(0, 10**6))
    def t(pg, fs):
        ins, out_ranks = io_desc(pg)
        in4 = [i for i, s in enumerate(ins) if len(s) == 4]
        out4 = [i for i, r in enumerate(out_ranks) if r == 4]
        subs = all_subsets(in4, out4, sh["limit"], np.random.default_rng(fs))
        for s in pg["steps"]:
            acc.tally("steps", s[0])
        vs = check_prog(pg, subs, fs, acc)
        if not vs and len(acc.samples) < 2:
            acc.samples.append({"program": pg, "subsets": subs[:4]})
        for v in vs:
            acc.violation(v["sig"], v["case"], v["detail"])

    t()
    return acc.to_dict()


def replay(case):
    subs = [tuple(s) for s in case.get("subsets", [])]
    if not subs and not case.get("invalid"):
        ins, out_ranks = io_desc(case["pg"])
        in4 = [i for i, s in enumerate(ins) if len(s) == 4]
        out4 = [i for i, r in enumerate(out_ranks) if r == 4]
        subs = all_subsets(in4, out4, 0, np.random.default_rng(0))
    return check_prog(case["pg"], subs, case["feed_seed"], None, invalid=bool(case.get("invalid")) or not case.get("subsets"))
