#!/usr/bin/env python3
"""Regenerates MANIFEST.json from the table below (keeps it schema-valid)."""
import json
import os

ROOT = os.path.dirname(os.path.dirname(os.path.abspath(__file__)))

CHECKS = {
    "C17": dict(
        category="exploration",
        text="Exhaustive enumeration of every accepted (source, intermediate) element-type pair over all values of every <=16-bit source type (quick) and every <=32-bit source type (thorough), boundary-biased Hypothesis sampling for 64-bit/complex sources, an exhaustive [-20,20]^3 Range box and Hypothesis Range triples near every integer-type boundary through generated chains of value-preserving ops. The decision is observed by running the real rewrite on Cast->Cast graphs, the oracle is numpy/ml_dtypes cast semantics with ORT as a confirming second oracle.",
        design_ref="DESIGN.md §3 C17",
        note="Trusts numpy/ml_dtypes astype as the model of ONNX Cast for in-range values; 64-bit and complex sources are sampled, not enumerated; NaN payloads are not distinguished.",
        technique="exhaustive enumeration + Hypothesis property test against a numpy reference model (differential vs ORT)",
    ),
    "C02": dict(
        category="exploration",
        text="Differential testing of the real optimizer pipeline, one pass at a time, on Hypothesis-generated ONNX graphs built from pattern-seeded neighbourhoods of every rewrite rule plus free steps (symbolic dims, generated output sets, Loop/If captures, tensor side operands), and on raw lowered models of generated JAX programs with intermediates promoted to outputs. Oracle: ORT(raw) == ORT(after pass k) in count, order, dtype, runtime shape and values, model stays checker-valid/loadable, declared output annotations stay consistent. Failures are bucketed by (pass, kind, flags), shrunk structurally and replayed from a committed corpus of former failures.",
        design_ref="DESIGN.md §3 C02",
        note="ORT CPU is trusted as the executable semantics of both sides; graphs are bounded (<= ~25 nodes, dims <= 5, ranks <= 4); Dropout with dynamic training mode is excluded (random).",
        technique="Hypothesis grammar-based graph generation + per-pass differential execution in ONNX Runtime, structural shrinking, regression corpus",
    ),
}

NOT_APPLICABLE = []


def main():
    props = [json.loads(l) for l in open(os.path.join(ROOT, "properties.jsonl"))]
    ids = [p["id"] for p in props]
    checks = []
    for pid in ids:
        if pid not in CHECKS:
            continue
        c = CHECKS[pid]
        checks.append(
            {
                "property_id": pid,
                "quick_cmd": f"./check {pid} --tier quick",
                "thorough_cmd": f"./check {pid} --tier thorough",
                "evidence_file": f"/verif/evidence/{pid}.json",
                "replay_cmd_template": f"./check {pid} --replay {{path}}",
                "engine": "vf",
                "level_claimed": {"category": c["category"], "text": c["text"], "design_ref": c["design_ref"]},
                "level_note": c["note"],
                "technique": c["technique"],
            }
        )
    na = list(NOT_APPLICABLE)
    claimed = {c["property_id"] for c in checks}
    listed = {n["property_id"] for n in na}
    for pid in ids:
        if pid not in claimed and pid not in listed:
            na.append({"property_id": pid, "reason": "check not built yet in this revision (planned: generated-input search per DESIGN.md §3); not claimed"})
    manifest = {
        "version": 1,
        "setup_cmd": "bash tools/setup.sh",
        "hooks": {
            "guard": "JAX2ONNX_VERIF",
            "enable": "no source hooks are needed: checks import /repo's working tree directly (PYTHONPATH=/repo) and swap module-level pass tables / registries in-process; ./check exports JAX2ONNX_VERIF=1 for completeness",
            "baseline_off_cmd": "cd /repo && /venv/bin/python -m pytest -ra -q -p no:cacheprovider --timeout=900 --continue-on-collection-errors",
            "source_commits": [],
            "add_only": True,
        },
        "engines": [
            {
                "name": "vf",
                "path": "/verif/vf",
                "serves_properties": sorted(claimed),
                "kind_free_text": "Hypothesis-driven property-based testing / generated-input search with explicit oracles (eager JAX, ORT differential, numpy reference models), 16 spawned worker processes, collect-bucket-shrink, JSON replay files",
            }
        ],
        "checks": checks,
        "not_applicable": na,
        "notes": "Genuine defects repaired in /repo as 'fix:' commits and open findings are listed per property in /verif/known_findings/*.json; see DESIGN.md.",
    }
    with open(os.path.join(ROOT, "MANIFEST.json"), "w") as fh:
        json.dump(manifest, fh, indent=1)
        fh.write("\n")
    try:
        import sys

        sys.path.insert(0, os.path.join(ROOT, ".deps"))
        import jsonschema

        jsonschema.validate(manifest, json.load(open("/root/.vp/MANIFEST.schema.json")))
        print("MANIFEST.json valid;", len(checks), "checks,", len(na), "not_applicable")
    except ImportError:
        print("MANIFEST.json written (jsonschema unavailable)")


if __name__ == "__main__":
    main()
