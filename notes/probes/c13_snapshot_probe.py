import sys; sys.path.insert(0,'/tmp')
import inspect, types, importlib, pkgutil
import jax, jax.numpy as jnp, numpy as np, flax, equinox as eqx
from flax import nnx, linen
import jax.nn, jax.lax, jax.image, jax.random, jax.scipy, jax.scipy.special, jax.numpy.linalg, jax.numpy.fft
from jax2onnx import to_onnx, onnx_function
import jitfix
from jax2onnx.plugins.plugin_system import import_all_plugins, _PATCH_STATE
def roots():
    mods=[m for n,m in list(sys.modules.items()) if m is not None and n.split('.')[0] in ("jax","flax","equinox","dm_pix","einops","jaxlib")]
    return mods
def snap():
    s={}
    for m in roots():
        for k,v in list(vars(m).items()):
            s[("mod",m.__name__,k)]=id(v)
            if inspect.isclass(v) and (getattr(v,"__module__","") or "").split(".")[0] in ("jax","flax","equinox","dm_pix","einops"):
                for kk in dir(v):
                    try: vv=inspect.getattr_static(v,kk)
                    except Exception: continue
                    s[("cls",v.__module__+"."+v.__qualname__,kk)]=id(vv)
    return s
# warm up
to_onnx(lambda x: jnp.sin(x), [(2,)])
base=snap(); print("snapshot size", len(base))
def diff(a,b,label):
    ch=[k for k in a if k in b and a[k]!=b[k]]; new=[k for k in b if k not in a]; gone=[k for k in a if k not in b]
    print(label,"changed",len(ch),"new",len(new),"gone",len(gone)); 
    for k in (ch+gone)[:15]: print("   ",k)
    nn=[k for k in new if not (k[0]=="mod" and isinstance(getattr(sys.modules.get(k[1]),k[2],None),types.ModuleType))]
    for k in nn[:10]: print("   new",k)
# success
m=to_onnx(lambda x: jax.nn.softmax(nnx.relu(x))@x.T, [(3,4)]); diff(base,snap(),"after success")
# failure in lowering (unsupported primitive)
try: to_onnx(lambda x: jax.lax.reduce_precision(x, 5, 10) if False else jax.lax.switch(0,[lambda a:a,lambda a:a+1,lambda a:a+2],x), [(3,)])
except Exception as e: print("raised",type(e).__name__)
diff(base,snap(),"after lowering failure")
# failure in tracing
def boom(x): 
    y=jnp.sin(x); raise RuntimeError("user error")
try: to_onnx(boom,[(3,)])
except Exception as e: print("raised",type(e).__name__)
diff(base,snap(),"after tracing failure")
# failure inside onnx_function body
@onnx_function
def fb(x):
    return jnp.cos(x)+jax.lax.switch(0,[lambda a:a,lambda a:a+1,lambda a:a+2],x)
try: to_onnx(lambda x: fb(x)*2,[(3,)])
except Exception as e: print("raised",type(e).__name__, str(e)[:80])
diff(base,snap(),"after fn body failure"); print("_PATCH_STATE",len(_PATCH_STATE))
@onnx_function
def inner(x): return jnp.tanh(x)
@onnx_function
def outer(x): return inner(x)+inner(x*2)
m=to_onnx(lambda x: outer(x), [(3,)], enable_double_precision=True); diff(base,snap(),"after nested fn dbl"); print(jax.config.jax_enable_x64, len(_PATCH_STATE))
x=np.ones((3,4),np.float32); print(jax.nn.softmax(nnx.relu(x)).sum(), jnp.einsum('ij,kj->ik',x,x).sum())
