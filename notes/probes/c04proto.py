import sys, os, time, json, warnings, collections, itertools
warnings.filterwarnings("ignore")
TREE=os.environ.get("TREE","/tmp/scratch_repo"); sys.path.insert(0,TREE)
import numpy as np, jax, jax.numpy as jnp
import logging; logging.disable(logging.CRITICAL)
from jax2onnx import to_onnx
if TREE=="/repo":
    sys.path.insert(0,'/tmp'); import jitfix
import onnxruntime as ort
ort.set_default_logger_severity(4)
from hypothesis import given, settings, strategies as st, seed, HealthCheck, Phase
from jax import core
def dexpr(depth):
    leaf=st.sampled_from([("B",),("N",),("c",1),("c",2),("c",3),("c",5)])
    if depth==0: return leaf
    sub=dexpr(depth-1)
    return st.one_of(leaf, st.tuples(st.sampled_from(["+","-","*"]),sub,sub), st.tuples(st.sampled_from(["//","%"]),sub,st.sampled_from([("c",2),("c",3),("c",4)])),
                     st.tuples(st.sampled_from(["max","min"]),sub,sub), st.tuples(st.just("sq"),sub))
def ev(e,env,mx,mn):
    t=e[0]
    if t in ("B","N"): return env[t]
    if t=="c": return e[1]
    if t=="sq": v=ev(e[1],env,mx,mn); return v*v
    a=ev(e[1],env,mx,mn); b=ev(e[2],env,mx,mn)
    return {"+":lambda:a+b,"-":lambda:a-b,"*":lambda:a*b,"//":lambda:a//b,"%":lambda:a%b,"max":lambda:mx(a,b),"min":lambda:mn(a,b)}[t]()
def show(e):
    t=e[0]
    if t in("B","N"): return t
    if t=="c": return str(e[1])
    if t=="sq": return f"({show(e[1])})**2"
    if t in("max","min"): return f"{t}({show(e[1])},{show(e[2])})"
    return f"({show(e[1])}{t}{show(e[2])})"
def uses(e,s): return e[0]==s or any(isinstance(x,tuple) and uses(x,s) for x in e[1:])
stats=collections.Counter(); fails={}
BIND=[(1,1),(1,3),(3,1),(2,2),(2,3),(3,2),(5,7),(7,5),(16,1),(4,4)]
@seed(int(os.environ.get("VERIF_SEED","1")))
@settings(max_examples=int(sys.argv[1]), deadline=None, database=None, suppress_health_check=list(HealthCheck), phases=[Phase.generate])
@given(st.lists(dexpr(3),min_size=1,max_size=3), st.sampled_from(["value","reshape","arange","broadcast"]))
def test(es,use):
    if not any(uses(e,"B") or uses(e,"N") for e in es): stats["trivial_const"]+=1; return
    def fn(x,y):
        env={"B":x.shape[0],"N":y.shape[0]}
        mx=lambda a,b: core.max_dim(a,b) if not (isinstance(a,int) and isinstance(b,int)) else max(a,b)
        mn=lambda a,b: core.min_dim(a,b) if not (isinstance(a,int) and isinstance(b,int)) else min(a,b)
        vals=[ev(e,env,mx,mn) for e in es]
        outs=[jnp.asarray(v) for v in vals]
        if use=="reshape": outs.append(jnp.reshape(x[:,None,:]*y[None,:,:],(x.shape[0]*y.shape[0],3)).sum(axis=1))
        if use=="arange": outs.append(jnp.arange(x.shape[0]+y.shape[0])*2)
        if use=="broadcast": outs.append(jnp.broadcast_to(x.sum(axis=1)[:,None],(x.shape[0],y.shape[0])))
        return tuple(outs)
    try: m=to_onnx(fn,[("B",3),("N",3)])
    except Exception as e:
        stats["export_rejects:"+type(e).__name__]+=1; fails.setdefault(("reject",str(e)[:90]),[show(e_) for e_ in es]); return
    try:
        so=ort.SessionOptions(); so.graph_optimization_level=ort.GraphOptimizationLevel.ORT_DISABLE_ALL
        s=ort.InferenceSession(m.SerializeToString(),so,providers=["CPUExecutionProvider"])
    except Exception as e: stats["ort_load_fail"]+=1; fails.setdefault(("load",str(e)[:60]),[show(e_) for e_ in es]); return
    for B,N in BIND:
        x=np.arange(B*3,dtype=np.float32).reshape(B,3)-1; y=np.arange(N*3,dtype=np.float32).reshape(N,3)*0.5
        try: got=s.run(None,{"in_0":x,"in_1":y})
        except Exception as e: stats["ort_run_error"]+=1; fails.setdefault(("run",str(e)[:80]),([show(e_) for e_ in es],B,N)); return
        try: exp=[np.asarray(o) for o in fn(x,y)]
        except Exception as e: stats["jax_concrete_rejects"]+=1; continue
        for i,(g,e_) in enumerate(zip(got,exp)):
            if g.shape!=e_.shape or not np.allclose(g,e_):
                stats["VIOLATION"]+=1
                key=("dimexpr" if i<len(es) else use)
                desc=(show(es[i]) if i<len(es) else use,(B,N),g.tolist() if g.size<4 else g.shape,e_.tolist() if e_.size<4 else e_.shape)
                if key not in fails or len(str(desc[0]))<len(str(fails[key][0])): fails[key]=desc
                return
    stats["ok"]+=1
T0=time.time(); test()
print(TREE,round(time.time()-T0,1),dict(stats))
for k,v in fails.items(): print("  ",k,v)
