import sys, os, warnings, tempfile, shutil, hashlib, collections
warnings.filterwarnings("ignore")
sys.path.insert(0,'/tmp/scratch_repo')
import numpy as np, jax, jax.numpy as jnp, onnx, onnx_ir as ir
from onnx import numpy_helper as nh
import logging; logging.disable(logging.CRITICAL)
from jax2onnx import to_onnx
import onnxruntime as ort
ort.set_default_logger_severity(4)
import hypothesis
from hypothesis import settings, strategies as st, HealthCheck
from hypothesis.stateful import RuleBasedStateMachine, rule, invariant, initialize, run_state_machine_as_test
SIZES={"none":None,"small":(8,8),"just_below":(512,511),"just_above":(512,513),"large":(700,600),"two_large":(600,600)}
STATS=collections.Counter()
def make_fn(size_cls, salt):
    if SIZES[size_cls] is None: return (lambda x: jnp.tanh(x)*2+salt), (2,8)
    r,c=SIZES[size_cls]; w=(np.random.RandomState(salt).randn(r,c)).astype(np.float32)
    if size_cls=="two_large":
        w2=(np.random.RandomState(salt+100).randn(c,r)).astype(np.float32)
        return (lambda x: (x@w)@w2), (2,r)
    return (lambda x: x@w), (2,r)
def norm_inits(m, base_dir=None):
    return {t.name:(tuple(t.dims),t.data_type,hashlib.sha256(nh.to_array(t,base_dir or "").tobytes()).hexdigest()) for t in m.graph.initializer}
def struct(m):
    return [(n.op_type,tuple(n.input),tuple(n.output),tuple(sorted((a.name,a.type) for a in n.attribute))) for n in m.graph.node],[i.name for i in m.graph.input],[o.name for o in m.graph.output]
class Modes(RuleBasedStateMachine):
    def __init__(self):
        super().__init__(); self.dir=tempfile.mkdtemp(prefix="c15_"); self.prev={}
    @rule(path=st.sampled_from(["m.onnx","sub/m.onnx","other.onnx"]), size=st.sampled_from(sorted(SIZES)), mode=st.sampled_from(["standard","web"]), salt=st.integers(0,3))
    def export(self,path,size,mode,salt):
        fn,shape=make_fn(size,salt)
        full=os.path.join(self.dir,path)
        proto=to_onnx(fn,[shape])
        irp=ir.to_proto(to_onnx(fn,[shape],return_mode="ir"))
        ret=to_onnx(fn,[shape],return_mode="file",output_path=full,export_mode=mode)
        assert ret==full
        assert proto.SerializeToString(deterministic=True)==irp.SerializeToString(deterministic=True),"proto!=ir"
        loaded=onnx.load(full, load_external_data=False)
        base=os.path.dirname(full)
        assert struct(loaded)==struct(proto),"graph differs after reload"
        assert norm_inits(loaded,base)==norm_inits(proto),"initializer bytes differ"
        side=full+".data"
        uses_ext=any(t.data_location==onnx.TensorProto.EXTERNAL for t in loaded.graph.initializer)
        if mode=="web":
            assert not uses_ext,"web references external data"; assert not os.path.exists(side),"web left sidecar"
        if uses_ext: assert os.path.exists(side)
        x=np.random.RandomState(9).randn(*shape).astype(np.float32)
        a=ort.InferenceSession(full).run(None,{"in_0":x})[0]; b=ort.InferenceSession(proto.SerializeToString()).run(None,{"in_0":x})[0]
        assert np.array_equal(a,b),"ORT outputs differ"
        trans=(self.prev.get(path),(mode,size)); STATS["steps"]+=1
        if self.prev.get(path) and self.prev[path]!=(mode,size): STATS["overwrite_other_mode_or_size"]+=1
        self.prev[path]=(mode,size)
    def teardown(self): shutil.rmtree(self.dir,ignore_errors=True)
run_state_machine_as_test(hypothesis.seed(int(os.environ.get("VERIF_SEED","1")))(Modes), settings=settings(max_examples=int(sys.argv[1]), stateful_step_count=6, deadline=None, database=None, suppress_health_check=list(HealthCheck)))
print("OK",dict(STATS))
