"""Export / eager-reference / comparison helpers (the policy of DESIGN §2.5)."""

from __future__ import annotations

import contextlib
import logging
import warnings

import numpy as np

warnings.filterwarnings("ignore")
logging.disable(logging.CRITICAL)

RTOL, ATOL, K = 2e-4, 2e-5, 16.0


def to_onnx(fn, inputs, **kw):
    from jax2onnx import to_onnx as _t

    return _t(fn, inputs, **kw)


@contextlib.contextmanager
def x64(enabled=True):
    import jax

    prev = bool(jax.config.jax_enable_x64)
    jax.config.update("jax_enable_x64", bool(enabled))
    try:
        yield
    finally:
        jax.config.update("jax_enable_x64", prev)


def converter_inactive():
    """The reference must be evaluated with no plugin patch active."""
    try:
        from jax2onnx.plugins import plugin_system as ps

        st = getattr(ps, "_PATCH_STATE", None)
        return not st
    except Exception:
        return True


def flatten(out):
    import jax

    return [np.asarray(x) for x in jax.tree_util.tree_leaves(out)]


def eager(fn, feeds):
    import jax.numpy as jnp

    return flatten(fn(*[jnp.asarray(f) for f in feeds]))


def eager64(fn, feeds):
    """Same callable under x64 with float inputs widened; None when the callable does not admit it."""
    import jax.numpy as jnp

    try:
        with x64(True):
            args = [jnp.asarray(f.astype(np.float64) if f.dtype.kind == "f" else f) for f in feeds]
            return flatten(fn(*args))
    except Exception:
        return None


def run_model(model, feeds):
    """Feeds are positional over the model's declared inputs."""
    from vf import onnxutil

    sess = onnxutil.session(model)
    ins = sess.get_inputs()
    if len(ins) != len(feeds):
        raise ValueError(f"model declares {len(ins)} inputs, {len(feeds)} feeds")
    return sess.run(None, {i.name: np.asarray(f) for i, f in zip(ins, feeds)})


def widen_ok(exp: np.ndarray, got: np.ndarray) -> bool:
    """Dtype classes agree (bool / int (may widen) / float)."""
    if exp.dtype.kind == "b":
        return got.dtype.kind == "b"
    if exp.dtype.kind in "iu":
        return got.dtype.kind in "iu"
    if exp.dtype.kind == "f":
        return got.dtype.kind == "f"
    return exp.dtype.kind == got.dtype.kind


def compare_one(got, ref32, ref64=None, rtol=RTOL, atol=ATOL):
    """Returns (status, detail): status in ok / trivial / shape / dtype / value."""
    got = np.asarray(got)
    ref32 = np.asarray(ref32)
    if got.shape != ref32.shape:
        return "shape", f"shape {got.shape} vs jax {ref32.shape}"
    if not widen_ok(ref32, got):
        return "dtype", f"dtype {got.dtype} vs jax {ref32.dtype}"
    if ref32.dtype.kind in "biu":
        mask = np.ones(ref32.shape, bool)
        if ref64 is not None and np.asarray(ref64).shape == ref32.shape and np.asarray(ref64).dtype.kind in "biu":
            # discrete result that depends on float rounding: only positions where JAX f32 and f64 agree are decided
            mask = np.asarray(ref64).astype(np.int64) == ref32.astype(np.int64)
        if not mask.any():
            return "trivial", "no position where jax32 and jax64 agree"
        a = got.astype(np.int64) if got.dtype.kind != "b" else got
        b = ref32.astype(np.int64) if ref32.dtype.kind != "b" else ref32
        bad = mask & (a != b)
        if bad.any():
            j = tuple(np.argwhere(bad)[0])
            return "value", f"at {j}: onnx {got[j]} vs jax {ref32[j]} ({int(bad.sum())} of {bad.size} differ)"
        return "ok", ""
    if ref32.dtype.kind == "c":
        if not np.allclose(got, ref32, rtol=1e-3, atol=1e-4, equal_nan=True):
            return "value", "complex mismatch"
        return "ok", ""
    r32 = ref32.astype(np.float64)
    g = got.astype(np.float64)
    if ref64 is not None and np.asarray(ref64).shape == ref32.shape and np.asarray(ref64).dtype.kind == "f":
        r = np.asarray(ref64).astype(np.float64)
        fin = np.isfinite(r) & np.isfinite(r32)
        if not fin.any():
            return "trivial", "no finite element"
        scale = max(1.0, float(np.abs(r[fin]).max()))
        own = np.abs(r32 - r)
        own = np.where(np.isfinite(own), own, np.inf)
        with np.errstate(all="ignore"):
            tol = atol * scale + rtol * np.abs(r) + K * own
            bad = fin & ~(np.abs(g - r) <= tol)
    else:
        r = r32
        fin = np.isfinite(r)
        if not fin.any():
            return "trivial", "no finite element"
        scale = max(1.0, float(np.abs(r[fin]).max()))
        with np.errstate(all="ignore"):
            bad = fin & ~(np.abs(g - r) <= atol * scale + 1e-3 * np.abs(r))
    if bad.any():
        j = tuple(np.argwhere(bad)[0])
        return "value", f"at {j}: onnx {got[j]!r} vs jax32 {ref32[j]!r} (ref {r[j]!r}); {int(bad.sum())} of {bad.size} elements"
    return "ok", ""


def compare_all(gots, refs32, refs64=None):
    """Returns (status, detail) over all outputs; count mismatch is status 'count'."""
    if len(gots) != len(refs32):
        return "count", f"{len(gots)} model outputs vs {len(refs32)} jax leaves"
    worst = "ok"
    trivial = 0
    for i, (g, r) in enumerate(zip(gots, refs32)):
        r64 = refs64[i] if refs64 is not None and len(refs64) == len(refs32) else None
        st, d = compare_one(g, r, r64)
        if st == "trivial":
            trivial += 1
            continue
        if st != "ok":
            return st, f"output {i}: {d}"
    if trivial == len(gots) and gots:
        return "trivial", "all outputs trivial"
    return worst, ""
