"""C17 — cast elimination removes only value-preserving round trips.

Decision is observed behaviourally: a Cast(S->U) -> Cast(U->S) graph is run
through remove_redundant_casts_ir; "accepted" = no Cast survives (or only the
first one when the intermediate is a graph output).  For every accepted pair all
values of S (exhaustively up to 16 bit in quick, 32 bit in thorough) must survive
numpy/ml_dtypes casts bit-exactly; ORT Cast is a second, confirming oracle.
Range part: Range(start, limit, delta) [-> value-preserving chain] -> Cast(narrow)
-> Cast(back): a fold is sound only if the true arange extrema fit the narrow type.
"""

from __future__ import annotations

import itertools
import os

import numpy as np
import onnx
from onnx import TensorProto, helper

from vf.core import Acc, derive_seed

PROPERTY = "C17"
LEVEL = "exploration"
RULE = (
    "pairs: every ordered (source, intermediate) pair of onnx_ir.DataType, decision observed by running "
    "remove_redundant_casts_ir on Cast->Cast graphs; for each accepted pair every value of the source type "
    "(exhaustive for <=16-bit sources in quick and <=32-bit sources in thorough; boundary-biased Hypothesis "
    "samples for 64-bit/complex) must round-trip bit-exactly under numpy/ml_dtypes casts (NaN==NaN). "
    "ranges: all integer (start,limit,delta) in [-20,20]^3 exhaustively against sub-byte/8-bit narrow types, plus "
    "Hypothesis triples near every integer-type boundary through random chains of value-preserving ops; "
    "a fold must imply the true arange extrema fit the narrow type, and ORT(raw)==ORT(optimized). "
    "non-trivial = accepted pair with source != intermediate (distinct by (source, intermediate, value-chunk)) "
    "or a Range/constant case where the narrowing fold fired or a boundary value lies outside the narrow type "
    "(distinct by (triple, types, chain))."
)
ASSUMPTIONS = [
    "numpy/ml_dtypes astype is the model of ONNX Cast for in-range values; ORT Cast is cross-checked where ORT has the kernel",
    "sub-byte types are enumerated by value, not by storage byte pattern",
    "NaN payload changes are not counted as value changes (NaN == NaN)",
]

SUBBYTE = {"INT4": range(-8, 8), "UINT4": range(0, 16), "INT2": range(-2, 2), "UINT2": range(0, 4)}


def _types():
    import onnx_ir as ir

    return [t for t in ir.DataType if t.name != "UNDEFINED"]


def _np_dtype(t):
    try:
        return np.dtype(t.numpy())
    except Exception:
        return None


def _cast_model(src_code, mid_code, mid_is_output=False, opset=23):
    x = helper.make_tensor_value_info("x", src_code, ["n"])
    y = helper.make_tensor_value_info("y", src_code, ["n"])
    outs = [y]
    if mid_is_output:
        outs.append(helper.make_tensor_value_info("m", mid_code, ["n"]))
    nodes = [
        helper.make_node("Cast", ["x"], ["m"], to=mid_code),
        helper.make_node("Cast", ["m"], ["y"], to=src_code),
    ]
    g = helper.make_graph(nodes, "g", [x], outs)
    return helper.make_model(g, opset_imports=[helper.make_opsetid("", opset)], ir_version=10)


def _run_cast_pass(model):
    import onnx_ir as ir
    from jax2onnx.converter import ir_optimizations as opt

    m = ir.from_proto(model)
    opt.remove_redundant_casts_ir(m.graph)
    return ir.to_proto(m)


def _n_casts(model):
    return sum(1 for n in model.graph.node if n.op_type == "Cast")


def observed_decision(src, mid):
    """True when the rewrite removes the S->U->S round trip."""
    try:
        m = _cast_model(int(src.value), int(mid.value))
        o = _run_cast_pass(m)
    except Exception:
        return None
    return _n_casts(o) == 0


def _cast(vals, dt):
    with np.errstate(all="ignore"):
        try:
            if vals.dtype.kind == "c" and dt.kind != "c":
                return vals.real.astype(dt)
            return vals.astype(dt)
        except (TypeError, ValueError):
            mid = np.float64 if (vals.dtype.kind not in "iub" or dt.kind not in "iub") else np.int64
            return vals.astype(mid).astype(dt)


def _roundtrip_bad(vals, ds, du):
    """Return boolean mask of values that do NOT survive ds -> du -> ds."""
    from vf.onnxutil import same_bits

    rt = _cast(_cast(vals, du), ds)
    return ~same_bits(vals, rt, nan_equal=True)


def _all_values_small(t, dt):
    name = t.name
    if name in SUBBYTE:
        return np.array(list(SUBBYTE[name]), dtype=np.int64).astype(dt)
    if dt == np.bool_:
        return np.array([False, True])
    if dt.kind in "iu" and dt.itemsize <= 2:
        ii = np.iinfo(dt)
        return np.arange(ii.min, ii.max + 1, dtype=np.int64).astype(dt)
    if dt.itemsize == 1 and dt.kind not in "iub":
        if name == "FLOAT4E2M1":
            return np.arange(16, dtype=np.uint8).view(dt)
        return np.arange(256, dtype=np.uint8).view(dt)
    if dt.itemsize == 2 and dt.kind not in "iuc":
        return np.arange(65536, dtype=np.uint16).view(dt)
    return None


def _boundary_patterns32():
    base = [0, 1, 2, 0x7FFFFFFF, 0x80000000, 0x80000001, 0xFFFFFFFF, 0xFFFFFFFE, 0x7F800000, 0xFF800000,
            0x7FC00000, 0x7F800001, 0x00800000, 0x007FFFFF, 0x00000001, 0x80000001, 0x3F800000, 0x4B800000,
            0x4B7FFFFF, 0x4B800001, 0x4F000000, 0xCF000000, 0x7F7FFFFF, 0xFF7FFFFF, 0x33800000]
    for k in range(32):
        base += [(1 << k) & 0xFFFFFFFF, ((1 << k) - 1) & 0xFFFFFFFF, ((1 << k) + 1) & 0xFFFFFFFF,
                 (-(1 << k)) & 0xFFFFFFFF, (-(1 << k) - 1) & 0xFFFFFFFF, (-(1 << k) + 1) & 0xFFFFFFFF]
    return np.array(sorted(set(base)), dtype=np.uint32)


def _boundary_patterns64():
    base = [0, 1, 0x7FFFFFFFFFFFFFFF, 0x8000000000000000, 0xFFFFFFFFFFFFFFFF, 0x7FF0000000000000, 0xFFF0000000000000,
            0x7FF8000000000000, 0x0010000000000000, 0x000FFFFFFFFFFFFF, 0x0000000000000001, 0x8000000000000001,
            0x3FF0000000000000, 0x47EFFFFFE0000000, 0x47EFFFFFF0000000, 0x36A0000000000000, 0x3690000000000000,
            0x380FFFFFC0000000, 0x3810000000000000]
    for k in range(64):
        for d in (-2, -1, 0, 1, 2):
            base += [((1 << k) + d) & (2**64 - 1), (-(1 << k) + d) & (2**64 - 1)]
    return np.array(sorted(set(base)), dtype=np.uint64)


def plan(tier, seed):
    shards = [{"kind": "decisions", "seed": seed}, {"kind": "pairs_small", "seed": seed}]
    n32 = 256 if tier == "thorough" else 16
    for i in range(n32):
        shards.append({"kind": "pairs32", "chunk": i, "nchunks": n32, "exhaustive": tier == "thorough", "seed": seed})
    n64 = 16 if tier == "thorough" else 4
    for i in range(n64):
        shards.append({"kind": "pairs64", "shard": i, "seed": seed, "examples": 400 if tier == "thorough" else 120})
    for s in range(-20, 21, 3 if tier == "quick" else 1):
        starts = list(range(s, min(s + (3 if tier == "quick" else 1), 21)))
        shards.append({"kind": "range_box", "starts": starts, "seed": seed})
    nh = 32 if tier == "thorough" else 8
    for i in range(nh):
        shards.append({"kind": "range_hyp", "shard": i, "seed": seed, "examples": 600 if tier == "thorough" else 150})
    return shards


# ----------------------------------------------------------------------------
# pair part


def _accepted_pairs():
    ts = _types()
    acc, rej = [], []
    for s in ts:
        for u in ts:
            if s == u:
                continue
            d = observed_decision(s, u)
            (acc if d else rej).append((s, u))
    return acc, rej


def _check_pair_values(acc: Acc, s, u, vals, tag, ort_check=False):
    ds, du = _np_dtype(s), _np_dtype(u)
    if ds is None or du is None:
        acc.tally("pairs_without_numpy_dtype", f"{s.name}->{u.name}")
        return
    bad = _roundtrip_bad(vals, ds, du)
    acc.case(key=("pair", s.name, u.name, tag), nontrivial=True, n=int(vals.size))
    acc.tally("values_checked_by_source", s.name, int(vals.size))
    if bad.any():
        ex = vals[bad][:4]
        acc.violation(
            {"kind": "lossy_pair_accepted", "source": s.name, "intermediate": u.name},
            {"kind": "pair", "source": s.name, "intermediate": u.name,
             "values_hex": [bytes(np.asarray(v).tobytes()).hex() for v in ex]},
            f"{int(bad.sum())} of {vals.size} values of {s.name} change under ->{u.name}->{s.name}; e.g. {ex!r}",
        )
    if ort_check and vals.size <= 70000:
        _ort_pair_check(acc, s, u, vals)


_ORT_OK = {}


def _ort_pair_check(acc, s, u, vals):
    from vf import onnxutil

    key = (s.name, u.name)
    if key not in _ORT_OK:
        try:
            _ORT_OK[key] = onnxutil.session(_cast_model(int(s.value), int(u.value)))
        except Exception:
            _ORT_OK[key] = None
    sess = _ORT_OK[key]
    if sess is None:
        acc.count("ort_pairs_unsupported")
        return
    try:
        out = sess.run(None, {"x": vals})[0]
    except Exception:
        acc.count("ort_pairs_run_failed")
        return
    from vf.onnxutil import same_bits

    try:
        bad = ~same_bits(vals, out.view(vals.dtype) if out.dtype != vals.dtype and out.dtype.itemsize == vals.dtype.itemsize else out)
    except ValueError:
        acc.count("ort_pairs_dtype_mismatch")
        return
    acc.count("ort_pairs_crosschecked")
    if bad.any():
        # numpy said lossless (or the violation is already recorded): observation only
        acc.tally("ort_disagrees_with_numpy_model", f"{s.name}->{u.name}", int(bad.sum()))


def _work_decisions(sh, acc):
    """Identity casts, decision table sanity, and rewrite behaviour with observed intermediates."""
    from vf import onnxutil

    accd, rej = _accepted_pairs()
    acc.stats["accepted_pairs"] = len(accd)
    acc.stats["rejected_pairs"] = len(rej)
    acc.stats["accepted_list"] = [f"{s.name}->{u.name}" for s, u in accd]
    # completeness info (informational): rejected pairs that are lossless on all small values
    lossless_rejected = []
    for s, u in rej:
        ds, du = _np_dtype(s), _np_dtype(u)
        if ds is None or du is None:
            continue
        vals = _all_values_small(s, ds)
        if vals is None:
            continue
        try:
            if not _roundtrip_bad(vals, ds, du).any():
                lossless_rejected.append(f"{s.name}->{u.name}")
        except Exception:
            pass
    acc.stats["rejected_but_lossless_on_all_small_values"] = lossless_rejected[:200]
    # intermediate-is-output variant: output m must survive and y == x
    for s, u in accd:
        m = _cast_model(int(s.value), int(u.value), mid_is_output=True)
        o = _run_cast_pass(m)
        names = [x.name for x in o.graph.output]
        acc.case(key=("mid_out", s.name, u.name), nontrivial=True)
        produced = {out for n in o.graph.node for out in n.output} | {i.name for i in o.graph.input}
        if len(names) != 2 or any(n not in produced for n in names):
            acc.violation({"kind": "observed_intermediate_lost", "source": s.name, "intermediate": u.name},
                          {"kind": "mid_out", "source": s.name, "intermediate": u.name},
                          f"outputs {names} produced {sorted(produced)}")
            continue
        ds = _np_dtype(s)
        vals = _all_values_small(s, ds) if ds is not None else None
        if vals is None or vals.size > 70000:
            continue
        try:
            r0 = onnxutil.run(m, {"x": vals})
            r1 = onnxutil.run(o, {"x": vals})
        except Exception:
            acc.count("mid_out_ort_unsupported")
            continue
        acc.count("mid_out_ort_compared")
        for a, b, nm in zip(r0, r1, ("y", "m")):
            if a.dtype != b.dtype or a.shape != b.shape or not onnxutil.same_bits(a, b).all():
                acc.violation({"kind": "rewrite_changed_output", "source": s.name, "intermediate": u.name, "output": nm},
                              {"kind": "mid_out", "source": s.name, "intermediate": u.name},
                              f"output {nm} differs after remove_redundant_casts")


def _work_pairs_small(sh, acc):
    accd, _ = _accepted_pairs()
    for s, u in accd:
        ds = _np_dtype(s)
        if ds is None:
            continue
        vals = _all_values_small(s, ds)
        if vals is None:
            continue
        _check_pair_values(acc, s, u, vals, "all", ort_check=True)
        if len(acc.samples) < 4:
            acc.samples.append({"pair": f"{s.name}->{u.name}->{s.name}", "values": int(vals.size), "exhaustive": True})


def _work_pairs32(sh, acc):
    accd, _ = _accepted_pairs()
    chunk, n = sh["chunk"], sh["nchunks"]
    pairs = [(s, u) for s, u in accd if (_np_dtype(s) is not None and _np_dtype(s).itemsize == 4 and _np_dtype(s).kind != "c")]
    if sh["exhaustive"]:
        size = (1 << 32) // n
        lo = chunk * size
        sub = 1 << 22
        for s, u in pairs:
            ds = _np_dtype(s)
            for off in range(lo, lo + size, sub):
                pat = np.arange(off, min(off + sub, lo + size), dtype=np.uint64).astype(np.uint32)
                _check_pair_values(acc, s, u, pat.view(ds), f"chunk{chunk}")
        acc.stats["exhaustive_32bit_pairs"] = [f"{s.name}->{u.name}" for s, u in pairs]
    else:
        rng = np.random.default_rng(derive_seed(sh["seed"], "pairs32", chunk))
        pat = np.concatenate([_boundary_patterns32(), rng.integers(0, 1 << 32, size=1 << 18, dtype=np.uint64).astype(np.uint32)])
        for s, u in pairs:
            ds = _np_dtype(s)
            _check_pair_values(acc, s, u, pat.view(ds), f"sample{chunk}", ort_check=(chunk == 0))
    if pairs and len(acc.samples) < 2:
        acc.samples.append({"pairs32": [f"{s.name}->{u.name}" for s, u in pairs][:6], "chunk": chunk, "of": n,
                            "exhaustive": sh["exhaustive"]})


def _work_pairs64(sh, acc):
    import hypothesis
    from hypothesis import given, settings, strategies as st, HealthCheck

    accd, _ = _accepted_pairs()
    pairs = [(s, u) for s, u in accd if _np_dtype(s) is not None and (_np_dtype(s).itemsize >= 8 or _np_dtype(s).kind == "c")]
    if not pairs:
        return
    b64 = _boundary_patterns64()
    b32 = _boundary_patterns32()

    @hypothesis.seed(derive_seed(sh["seed"], "pairs64", sh["shard"]))
    @settings(max_examples=sh["examples"], deadline=None, database=None, derandomize=False,
              suppress_health_check=list(HealthCheck), report_multiple_bugs=False)
    @given(st.integers(0, len(pairs) - 1), st.integers(0, 2**32 - 1))
    def t(pi, sub):
        s, u = pairs[pi]
        ds = _np_dtype(s)
        rng = np.random.default_rng(sub)
        if ds.itemsize == 8 and ds.kind != "c":
            pat = np.concatenate([b64, rng.integers(0, 2**64, size=4096, dtype=np.uint64)])
            vals = pat.view(ds)
        elif ds == np.complex64:
            w = np.concatenate([b32, rng.integers(0, 1 << 32, size=4096, dtype=np.uint64).astype(np.uint32)])
            re = rng.permutation(w)
            vals = np.stack([w, re], axis=1).reshape(-1).view(np.float32).view(np.complex64)
        else:
            w = np.concatenate([b64, rng.integers(0, 2**64, size=4096, dtype=np.uint64)])
            re = rng.permutation(w)
            vals = np.stack([w, re], axis=1).reshape(-1).view(np.float64).view(np.complex128)
        _check_pair_values(acc, s, u, vals, f"h{sub}")

    t()
    acc.samples.append({"pairs64": [f"{s.name}->{u.name}" for s, u in pairs][:8]})


# ----------------------------------------------------------------------------
# range part

CHAIN_OPS = ["Identity", "Unsqueeze", "Squeeze1", "Reshape", "Flatten", "Transpose2", "Expand"]
INT_CODES = {"INT8": TensorProto.INT8, "UINT8": TensorProto.UINT8, "INT16": TensorProto.INT16, "UINT16": TensorProto.UINT16,
             "INT32": TensorProto.INT32, "UINT32": TensorProto.UINT32, "INT64": TensorProto.INT64, "UINT64": TensorProto.UINT64,
             "INT4": TensorProto.INT4, "UINT4": TensorProto.UINT4}
try:
    INT_CODES["INT2"] = TensorProto.INT2
    INT_CODES["UINT2"] = TensorProto.UINT2
except AttributeError:
    pass
INT_BOUNDS = {"INT8": (-128, 127), "UINT8": (0, 255), "INT16": (-2**15, 2**15 - 1), "UINT16": (0, 2**16 - 1),
              "INT32": (-2**31, 2**31 - 1), "UINT32": (0, 2**32 - 1), "INT64": (-2**63, 2**63 - 1), "UINT64": (0, 2**64 - 1),
              "INT4": (-8, 7), "UINT4": (0, 15), "INT2": (-2, 1), "UINT2": (0, 3)}
NPDT = {"INT16": np.int16, "INT32": np.int32, "INT64": np.int64}


def range_model(case):
    """case: {src, narrow, start, limit, delta, chain:[...], operands: 'init'|'const'|'input', mid_out: bool}"""
    src = case["src"]
    code = INT_CODES[src]
    npdt = NPDT[src]
    nodes, inits, inputs = [], [], []
    names = []
    for nm, v in (("start", case["start"]), ("limit", case["limit"]), ("delta", case["delta"])):
        mode = case.get("operands", "init")
        if mode == "input" and nm == case.get("input_operand", "limit"):
            inputs.append(helper.make_tensor_value_info(nm, code, []))
            names.append(nm)
        elif mode == "const":
            nodes.append(helper.make_node("Constant", [], [nm], value=helper.make_tensor(nm + "_v", code, [], [v])))
            names.append(nm)
        elif mode == "reshaped":
            inits.append(helper.make_tensor(nm + "_1", code, [1], [v]))
            inits.append(helper.make_tensor(nm + "_shape", TensorProto.INT64, [0], []))
            nodes.append(helper.make_node("Reshape", [nm + "_1", nm + "_shape"], [nm]))
            names.append(nm)
        else:
            inits.append(helper.make_tensor(nm, code, [], [v]))
            names.append(nm)
    nodes.append(helper.make_node("Range", names, ["r0"]))
    cur, rank = "r0", 1
    for i, op in enumerate(case.get("chain", [])):
        out = f"c{i}"
        if op == "Identity":
            nodes.append(helper.make_node("Identity", [cur], [out]))
        elif op == "Unsqueeze":
            inits.append(helper.make_tensor(f"ax{i}", TensorProto.INT64, [1], [0]))
            nodes.append(helper.make_node("Unsqueeze", [cur, f"ax{i}"], [out]))
            rank += 1
        elif op == "Squeeze1":
            if rank < 2:
                continue
            inits.append(helper.make_tensor(f"ax{i}", TensorProto.INT64, [1], [0]))
            # only valid when leading dim is 1: guaranteed when the previous rank-increasing op was Unsqueeze(0)
            if case.get("_lead1", {}).get(str(i)) is False:
                continue
            nodes.append(helper.make_node("Squeeze", [cur, f"ax{i}"], [out]))
            rank -= 1
        elif op == "Reshape":
            inits.append(helper.make_tensor(f"sh{i}", TensorProto.INT64, [1], [-1]))
            nodes.append(helper.make_node("Reshape", [cur, f"sh{i}"], [out]))
            rank = 1
        elif op == "Flatten":
            nodes.append(helper.make_node("Flatten", [cur], [out], axis=0))
            rank = 2
        elif op == "Transpose2":
            if rank != 2:
                continue
            nodes.append(helper.make_node("Transpose", [cur], [out], perm=[1, 0]))
        elif op == "Expand":
            inits.append(helper.make_tensor(f"sh{i}", TensorProto.INT64, [rank + 1], [2] + [1] * rank))
            nodes.append(helper.make_node("Expand", [cur, f"sh{i}"], [out]))
            rank += 1
        elif isinstance(op, list) and op[0] == "PadC":  # constant-mode Pad injects a new value
            inits.append(helper.make_tensor(f"pads{i}", TensorProto.INT64, [2 * rank], [1] + [0] * (rank - 1) + [1] + [0] * (rank - 1)))
            inits.append(helper.make_tensor(f"cv{i}", code, [], [op[1]]))
            nodes.append(helper.make_node("Pad", [cur, f"pads{i}", f"cv{i}"], [out], mode="constant"))
        elif isinstance(op, list) and op[0] in ("AddC", "MulC", "MaxC", "SubC"):
            inits.append(helper.make_tensor(f"k{i}", code, [], [op[1]]))
            nodes.append(helper.make_node({"AddC": "Add", "MulC": "Mul", "MaxC": "Max", "SubC": "Sub"}[op[0]], [cur, f"k{i}"], [out]))
        elif isinstance(op, list) and op[0] == "ConcatC":
            shape = [1] * (rank - 1) + [1]
            inits.append(helper.make_tensor(f"cc{i}", code, shape, [op[1]]))
            nodes.append(helper.make_node("Concat", [cur, f"cc{i}"], [out], axis=rank - 1))
            if rank != 1:
                nodes.pop()
                inits.pop()
                continue
        elif op == "Neg":
            nodes.append(helper.make_node("Neg", [cur], [out]))
        elif op == "Abs":
            nodes.append(helper.make_node("Abs", [cur], [out]))
        else:
            continue
        cur = out
    narrow = INT_CODES[case["narrow"]]
    nodes.append(helper.make_node("Cast", [cur], ["m"], to=narrow))
    nodes.append(helper.make_node("Cast", ["m"], ["y"], to=code))
    outs = [helper.make_tensor_value_info("y", code, None)]
    if case.get("mid_out"):
        outs.append(helper.make_tensor_value_info("m", narrow, None))
    g = helper.make_graph(nodes, "g", inputs, outs, initializer=inits)
    model = helper.make_model(g, opset_imports=[helper.make_opsetid("", 21)], ir_version=10)
    # the lowering always emits typed values; annotate intermediates the same way
    model = onnx.shape_inference.infer_shapes(model)
    return model, npdt


def _true_values(case):
    s, l, d = case["start"], case["limit"], case["delta"]
    n = max(0, -(-(l - s) // d)) if d != 0 else 0
    if n == 0:
        return None, None, 0
    last = s + (n - 1) * d
    return min(s, last), max(s, last), n


def _chain_true_extrema(case):
    """(min, max, n) of the values that reach the Cast, computed in Python ints (None, None, 0 when empty)."""
    s, l, d = case["start"], case["limit"], case["delta"]
    n = max(0, -(-(l - s) // d)) if d != 0 else 0
    if n > 20000:
        return _true_values(case)
    vals = [s + i * d for i in range(n)]
    rank1 = True
    for op in case.get("chain", []):
        if isinstance(op, list):
            k = op[1]
            if op[0] == "PadC":
                vals = [k] + vals + [k]
            elif op[0] == "AddC":
                vals = [v + k for v in vals]
            elif op[0] == "SubC":
                vals = [v - k for v in vals]
            elif op[0] == "MulC":
                vals = [v * k for v in vals]
            elif op[0] == "MaxC":
                vals = [max(v, k) for v in vals]
            elif op[0] == "ConcatC" and rank1:
                vals = vals + [k]
        elif op == "Neg":
            vals = [-v for v in vals]
        elif op == "Abs":
            vals = [abs(v) for v in vals]
        elif op in ("Unsqueeze", "Flatten", "Expand", "Transpose2"):
            rank1 = False if op != "Transpose2" else rank1
        elif op == "Reshape":
            rank1 = True
    if not vals:
        return None, None, 0
    return min(vals), max(vals), len(vals)


def check_range_case(case, acc: Acc, use_ort=True):
    """Returns violation dicts (also appended to acc)."""
    from vf import onnxutil

    out = []
    model, npdt = range_model(case)
    try:
        opt = _run_cast_pass(model)
    except Exception as e:  # the pass itself crashing is not this property
        acc.count("pass_raised")
        acc.note(f"pass raised {type(e).__name__}: {e}")
        return out
    y_casts = _n_casts(opt)
    folded = y_casts < 2 and not (case.get("mid_out") and y_casts == 1 and False)
    # y is no longer produced by the second Cast when folded
    folded = not any(n.op_type == "Cast" and "y" in n.output for n in opt.graph.node)
    lo, hi, n = _chain_true_extrema(case)
    nlo, nhi = INT_BOUNDS[case["narrow"]]
    slo, shi = INT_BOUNDS[case["src"]]
    preserving = nlo <= slo and nhi >= shi  # widening: always allowed
    if n and not (slo <= lo and hi <= shi):
        acc.count("chain_overflows_source_type_skipped")
        return out
    fits = n == 0 or (lo >= nlo and hi <= nhi)
    dynamic = case.get("operands") == "input"
    nontrivial = (folded and not preserving) or (not fits)
    key = (case["src"], case["narrow"], case["start"], case["limit"], case["delta"], str(case.get("chain", [])),
           case.get("operands", "init"), bool(case.get("mid_out")))
    acc.case(key=key, nontrivial=nontrivial)
    acc.tally("range", "folded" if folded else "kept")
    if folded and not preserving:
        acc.tally("range", "narrowing_fold_fired")
    if not fits:
        acc.tally("range", "true_values_outside_narrow_type")
    if folded and not preserving and (dynamic or not fits):
        v = {"sig": {"kind": "narrowing_fold_unproven", "src": case["src"], "narrow": case["narrow"],
                     "class": "dynamic_operand" if dynamic else "out_of_range", "chain": bool(case.get("chain")),
                     "value_changing_op": sorted({c[0] if isinstance(c, list) else c for c in case.get("chain", []) if isinstance(c, list) or c in ("Neg", "Abs")})},
             "case": dict(case, kind="range"),
             "detail": f"Range({case['start']},{case['limit']},{case['delta']}) true extrema ({lo},{hi}) vs {case['narrow']} [{nlo},{nhi}] folded"}
        acc.violation(v["sig"], v["case"], v["detail"])
        out.append(v)
    if use_ort and n <= 5000 and case["narrow"] in ("INT8", "UINT8", "INT16", "UINT16", "INT32", "UINT32", "INT64", "UINT64"):
        feeds = {}
        if dynamic:
            feeds[case.get("input_operand", "limit")] = np.asarray(case[case.get("input_operand", "limit")], dtype=npdt)
        try:
            r0 = onnxutil.run(model, feeds)
            r1 = onnxutil.run(opt, feeds)
        except Exception as e:
            acc.count("range_ort_failed")
            acc.note(f"ort failed: {str(e)[:200]}")
            return out
        acc.count("range_ort_compared")
        for a, b, nm in zip(r0, r1, ("y", "m")):
            if a.dtype != b.dtype or a.shape != b.shape or not np.array_equal(a, b):
                v = {"sig": {"kind": "range_rewrite_changed_output", "src": case["src"], "narrow": case["narrow"], "output": nm},
                     "case": dict(case, kind="range"), "detail": f"ORT output {nm} differs: {a.reshape(-1)[:5]} vs {b.reshape(-1)[:5]}"}
                acc.violation(v["sig"], v["case"], v["detail"])
                out.append(v)
    return out


def _work_range_box(sh, acc):
    narrows = [n for n in ("INT4", "UINT4", "INT2", "UINT2", "UINT8", "UINT16", "UINT64") if n in INT_CODES]
    for s in sh["starts"]:
        for l, d in itertools.product(range(-20, 21), range(-20, 21)):
            if d == 0:
                continue
            for nw in narrows:
                case = {"src": "INT64", "narrow": nw, "start": s, "limit": l, "delta": d, "chain": [], "operands": "init"}
                check_range_case(case, acc, use_ort=False)
    acc.samples.append({"range_box_start": sh["starts"], "limits": "-20..20", "deltas": "-20..20 except 0", "narrow": narrows})
    acc.stats["range_box_exhaustive"] = 1


def _work_range_hyp(sh, acc):
    import hypothesis
    from hypothesis import given, settings, strategies as st, HealthCheck

    srcs = ["INT64", "INT32", "INT16"]

    @st.composite
    def cases(draw):
        src = draw(st.sampled_from(srcs))
        slo, shi = INT_BOUNDS[src]
        narrow_opts = [n for n in INT_CODES if n != src]
        narrow = draw(st.sampled_from(sorted(narrow_opts)))
        nlo, nhi = INT_BOUNDS[narrow]
        anchor = draw(st.sampled_from([nlo, nhi, 0, slo, shi, nlo - 1, nhi + 1]))
        start = anchor + draw(st.integers(-6, 6))
        n = draw(st.integers(0, 40))
        delta = draw(st.one_of(st.integers(-5, 5), st.sampled_from([-(2**31), 2**31, 2**15, -(2**15), 127, 128, 255, 256, 2**16, 65535, -129]),
                               st.integers(-(2**33), 2**33)))
        if delta == 0:
            delta = 1
        jitter = draw(st.integers(0, abs(delta) - 1)) if abs(delta) > 1 else 0
        limit = start + n * delta + (jitter if delta > 0 else -jitter)
        # every emitted value and the operands themselves must be representable in src
        def clampok(v):
            return slo <= v <= shi
        if not (clampok(start) and clampok(limit) and clampok(delta)):
            start = max(slo, min(shi, start))
            delta = max(-(shi // 4), min(shi // 4, delta)) or 1
            limit = max(slo, min(shi, limit))
        kvals = st.sampled_from([0, 1, -1, 2, nlo, nhi, nlo - 1, nhi + 1, 200, -129, 2**31 + 5, -(2**31) - 1, 70000])
        preserving_op = st.sampled_from(["Identity", "Unsqueeze", "Reshape", "Flatten", "Transpose2", "Expand"])
        changing_op = st.one_of(st.tuples(st.sampled_from(["PadC", "AddC", "SubC", "MulC", "MaxC", "ConcatC"]), kvals).map(list), st.sampled_from(["Neg", "Abs"]))
        chain = draw(st.lists(st.one_of(preserving_op, preserving_op, changing_op), max_size=4))
        chain = [c if not isinstance(c, list) or slo <= c[1] <= shi else "Identity" for c in chain]
        operands = draw(st.sampled_from(["init", "init", "const", "reshaped", "input"]))
        case = {"src": src, "narrow": narrow, "start": int(start), "limit": int(limit), "delta": int(delta), "chain": chain,
                "operands": operands, "mid_out": draw(st.booleans())}
        if operands == "input":
            case["input_operand"] = draw(st.sampled_from(["start", "limit", "delta"]))
        return case

    @hypothesis.seed(derive_seed(sh["seed"], "range_hyp", sh["shard"]))
    @settings(max_examples=sh["examples"], deadline=None, database=None, suppress_health_check=list(HealthCheck),
              report_multiple_bugs=False)
    @given(cases())
    def t(case):
        lo, hi, n = _true_values(case)
        if n > 5000:
            case = dict(case, limit=case["start"] + 50 * case["delta"])
            slo, shi = INT_BOUNDS[case["src"]]
            if not slo <= case["limit"] <= shi:
                return
        check_range_case(case, acc)
        if len(acc.samples) < 3:
            acc.samples.append(case)

    t()


def work(sh):
    acc = Acc()
    k = sh["kind"]
    {"decisions": _work_decisions, "pairs_small": _work_pairs_small, "pairs32": _work_pairs32,
     "pairs64": _work_pairs64, "range_box": _work_range_box, "range_hyp": _work_range_hyp}[k](sh, acc)
    return acc.to_dict()


def replay(case):
    acc = Acc()
    if case.get("kind") == "range":
        check_range_case(case, acc)
    elif case.get("kind") in ("pair", "mid_out"):
        import onnx_ir as ir

        s, u = ir.DataType[case["source"]], ir.DataType[case["intermediate"]]
        if observed_decision(s, u):
            ds = _np_dtype(s)
            vals = _all_values_small(s, ds)
            if vals is None:
                if "values_hex" in case:
                    vals = np.frombuffer(b"".join(bytes.fromhex(h) for h in case["values_hex"]), dtype=ds)
                else:
                    vals = _boundary_patterns32().view(ds) if ds.itemsize == 4 else _boundary_patterns64().view(ds)
            _check_pair_values(acc, s, u, vals, "replay")
    return acc.violations


def finalize(merged, tier, seed):
    st = merged["stats"]
    merged.setdefault("extra", {})["exhaustive"] = False
    merged["extra"]["exhaustive_parts"] = (
        ["all values of every <=16-bit source type for every accepted pair", "Range box [-20,20]^3 (thorough: every start; quick: every start in shards of 3)"]
        + (["all 2^32 values of every 32-bit source type for every accepted pair"] if tier == "thorough" else [])
    )
