import sys, os, time, json, warnings, collections
warnings.filterwarnings("ignore")
TREE=os.environ.get("TREE","/repo"); sys.path.insert(0,TREE)
import numpy as np, onnx, onnx_ir as ir
from onnx import helper as h, TensorProto as TP
import logging; logging.disable(logging.CRITICAL)
import onnxruntime as ort
ort.set_default_logger_severity(4)
import jax2onnx
from jax2onnx.converter import ir_optimizations as io
from hypothesis import given, settings, strategies as st, seed, HealthCheck, Phase
assert jax2onnx.__file__.startswith(TREE), jax2onnx.__file__
UNARY=["Relu","Tanh","Sigmoid","Neg","Abs","Exp","Identity","Sqrt","Elu","LeakyRelu","Gelu"]
BINARY=["Add","Mul","Sub","Max","Min","Div"]
PERMS4=[(0,3,1,2),(0,2,3,1),(0,1,3,2),(3,2,1,0)]
@st.composite
def graph(draw):
    """values: name -> (shape tuple of ints/str, dtype 'f'); builds nodes list"""
    sym=draw(st.sampled_from(["none","one","two"]))
    base=draw(st.sampled_from([(2,3,4,5),(2,3,3,3),(1,4,4,2),(2,2,2,2)]))
    if sym!="none": base=("B",)+base[1:]
    if sym=="two": base=base[:2]+("N",)+base[3:]
    nin=draw(st.integers(1,3))
    vals={}; nodes=[]; inits=[]; inputs=[]; ORIG={}
    for i in range(nin):
        shp=base if i==0 else draw(st.sampled_from([base,tuple(base[p] for p in (0,3,1,2)),(1,),()]))
        vals[f"x{i}"]=shp; inputs.append((f"x{i}",shp))
    cnt=[0]
    def fresh(p="v"): cnt[0]+=1; return f"{p}{cnt[0]}"
    def conc(s): return tuple(3 if d=="B" else 5 if d=="N" else d for d in s)
    nsteps=draw(st.integers(2,9))
    for _ in range(nsteps):
        isreal=lambda t: isinstance(t,tuple) and not (len(t)==3 and t[0]=="cast")
        names=[n for n,s in vals.items() if isreal(s) and len(s)==4] or [n for n,s in vals.items() if isreal(s)]
        src=draw(st.sampled_from(names)); s=vals[src]
        kind=draw(st.sampled_from(["T","T","T","U","U","B","Bs","R","RM","Tinv","Rinv","Cast"]))
        out=fresh()
        if kind=="T" and len(s)==4:
            p=draw(st.sampled_from(PERMS4)); nodes.append(h.make_node("Transpose",[src],[out],perm=list(p))); vals[out]=tuple(s[i] for i in p)
        elif kind=="Tinv" and len(s)==4:
            # inverse of the most recent transpose on this chain if any
            p=draw(st.sampled_from(PERMS4)); inv=tuple(int(i) for i in np.argsort(p)); nodes.append(h.make_node("Transpose",[src],[out],perm=list(inv))); vals[out]=tuple(s[i] for i in inv)
        elif kind=="U":
            op=draw(st.sampled_from(UNARY)); nodes.append(h.make_node(op,[src],[out])); vals[out]=s
        elif kind=="Cast":
            mid=fresh(); to=draw(st.sampled_from([TP.FLOAT16,TP.DOUBLE,TP.INT32]))
            nodes.append(h.make_node("Cast",[src],[mid],to=to)); nodes.append(h.make_node("Cast",[mid],[out],to=TP.FLOAT)); vals[out]=s; vals[mid]=("cast",s,to)
        elif kind=="B":
            others=[n for n,t in vals.items() if t==s and n!=src]
            if not others: continue
            o=draw(st.sampled_from(others)); op=draw(st.sampled_from(BINARY)); ins=[src,o] if draw(st.booleans()) else [o,src]
            nodes.append(h.make_node(op,ins,[out])); vals[out]=s
        elif kind=="Bs":
            c=fresh("c"); inits.append(h.make_tensor(c,TP.FLOAT,[] if draw(st.booleans()) else [1],[draw(st.sampled_from([0.5,2.0,-1.0]))]))
            op=draw(st.sampled_from(BINARY)); nodes.append(h.make_node(op,[src,c],[out])); vals[out]=s
        elif kind=="R" and all(isinstance(d,int) for d in s) and len(s)==4:
            tgt=draw(st.sampled_from([(s[0]*s[1],s[2]*s[3]),(s[0],s[1]*s[2]*s[3]),(-1,)]))
            c=fresh("shape"); inits.append(h.make_tensor(c,TP.INT64,[len(tgt)],list(tgt)))
            nodes.append(h.make_node("Reshape",[src,c],[out])); n=int(np.prod(s)); vals[out]=tuple(n if d==-1 else d for d in tgt); ORIG[out]=s
        elif kind=="Rinv" :
            cands=[n for n in vals if n in ORIG and vals[n] is not None]
            # reshape back any descendant with same element count: pick a value whose shape has an ORIG ancestor shape
            cand=[n for n,t in vals.items() if t is not None and not (t and t[0]=="cast") and all(isinstance(d,int) for d in t) and len(t) in (1,2)]
            if not cand or not ORIG: continue
            srcv=draw(st.sampled_from(cand)); tgt=draw(st.sampled_from(sorted(set(ORIG.values()))))
            if int(np.prod(vals[srcv]))!=int(np.prod(tgt)): continue
            c=fresh("shape"); inits.append(h.make_tensor(c,TP.INT64,[4],list(tgt))); nodes.append(h.make_node("Reshape",[srcv,c],[out])); vals[out]=tgt
        elif kind=="RM" and len(s)==4:
            axes=draw(st.sampled_from([[1,2],[2,3],[1],[3]])); c=fresh("axes"); inits.append(h.make_tensor(c,TP.INT64,[len(axes)],axes))
            nodes.append(h.make_node("ReduceMean",[src,c],[out],keepdims=1)); vals[out]=tuple(1 if i in axes else d for i,d in enumerate(s))
        else: continue
    real={n:t for n,t in vals.items() if t is not None and not (isinstance(t,tuple) and t and t[0]=="cast") and not n.endswith("#orig")}
    produced=[o for n in nodes for o in n.output if o in real]
    if not produced: return None
    k=draw(st.integers(1,min(3,len(produced))))
    outs=draw(st.lists(st.sampled_from(produced),min_size=k,max_size=k,unique=True))
    if produced[-1] not in outs and draw(st.booleans()): outs.append(produced[-1])
    vi=lambda n,s: h.make_tensor_value_info(n,TP.FLOAT,list(s))
    g=h.make_graph(nodes,"g",[vi(n,s) for n,s in inputs],[vi(n,real[n]) for n in outs],inits,value_info=[vi(n,real[n]) for n in produced if n not in outs])
    m=h.make_model(g,opset_imports=[h.make_opsetid("",21)],ir_version=10)
    feeds={n:(np.random.default_rng(draw(st.integers(0,10**6))).standard_normal(conc(s))*2).astype(np.float32) for n,s in inputs}
    return m,feeds,outs
stats=collections.Counter(); fails={}; fired=collections.Counter(); T0=time.time()
def sess(m):
    so=ort.SessionOptions(); so.graph_optimization_level=ort.GraphOptimizationLevel.ORT_DISABLE_ALL
    return ort.InferenceSession(m.SerializeToString(),so,providers=["CPUExecutionProvider"])
@seed(int(os.environ.get("VERIF_SEED","1")))
@settings(max_examples=int(sys.argv[1]), deadline=None, database=None, suppress_health_check=list(HealthCheck), phases=[Phase.generate])
@given(graph())
def test(c):
    if c is None: stats["empty"]+=1; return
    m,feeds,outs=c
    try:
        onnx.checker.check_model(m,full_check=True); ref=sess(m).run(None,feeds)
    except Exception as e: stats["invalid_generated"]+=1; return
    im=ir.from_proto(m); prev=m.SerializeToString(); guilty=None; changed=False
    for p in io._OPTIMIZER_PASSES:
        io._run_top_level_optimizer_pass(p,im)
        cur=ir.to_proto(im)
        b=cur.SerializeToString()
        if b!=prev:
            if p.name not in ("name_fix","lift_constants_to_initializers"): fired[p.name]+=1; changed=True
            try:
                onnx.checker.check_model(cur,full_check=True); s_=sess(cur); decl={i.name for i in s_.get_inputs()}
                assert decl<=set(feeds), "optimizer invented an input"
                got=s_.run(None,{k:v for k,v in feeds.items() if k in decl})
                ok=len(got)==len(ref) and all(a.shape==b_.shape and a.dtype==b_.dtype and np.allclose(a,b_,rtol=1e-6,atol=1e-6,equal_nan=True) for a,b_ in zip(ref,got))
            except Exception as e: ok=False
            if not ok: guilty=p.name; break
        prev=b
    if guilty:
        stats["VIOLATION"]+=1
        ops=sorted(n.op_type for n in m.graph.node)
        inter_out=any(o!=m.graph.node[-1].output[0] for o in outs)
        key=(guilty,"interior_output" if inter_out else "final_only")
        if key not in fails or len(m.graph.node)<fails[key][0]: fails[key]=(len(m.graph.node),[n.op_type for n in m.graph.node],outs)
    else: stats["ok_changed" if changed else "ok_unchanged"]+=1
#test()
print(TREE,"time",round(time.time()-T0,1),dict(stats)); print("fired:",dict(fired))
for k,v in fails.items(): print("  ",k,v)

import random
from hypothesis import find
from hypothesis.errors import NoSuchExample
def classify(c):
    if c is None: return None
    m,feeds,outs=c
    try:
        onnx.checker.check_model(m,full_check=True); ref=sess(m).run(None,feeds)
    except Exception: return None
    im=ir.from_proto(m); prev=m.SerializeToString()
    for p in io._OPTIMIZER_PASSES:
        io._run_top_level_optimizer_pass(p,im)
        cur=ir.to_proto(im); b=cur.SerializeToString()
        if b!=prev:
            try:
                onnx.checker.check_model(cur,full_check=True); s_=sess(cur); decl={i.name for i in s_.get_inputs()}
                got=s_.run(None,{k:v for k,v in feeds.items() if k in decl})
                ok=len(got)==len(ref) and all(a.shape==b_.shape and a.dtype==b_.dtype and np.allclose(a,b_,rtol=1e-6,atol=1e-6,equal_nan=True) for a,b_ in zip(ref,got))
            except Exception: ok=False
            if not ok: return p.name
        prev=b
    return None
for target in ("remove_redundant_transpose_pairs","remove_redundant_reshape_pairs","remove_redundant_transpose_reduce"):
    t0=time.time()
    try:
        c=find(graph(), lambda c: classify(c)==target, settings=settings(max_examples=20000, deadline=None, database=None, suppress_health_check=list(HealthCheck)), random=random.Random(7))
        m,feeds,outs=c
        print(target,"shrunk in",round(time.time()-t0,1),"s ->",[(n.op_type,list(n.input),list(n.output),[ (a.name,list(a.ints)) for a in n.attribute if a.ints]) for n in m.graph.node],"outputs",outs,"inputs",[(i.name,[d.dim_param or d.dim_value for d in i.type.tensor_type.shape.dim]) for i in m.graph.input])
    except NoSuchExample: print(target,"no example in budget",round(time.time()-t0,1))
