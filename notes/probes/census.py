import sys, os, time, json, traceback, hashlib, inspect, collections
sys.path.insert(0,'/tmp'); sys.path.insert(0,'/repo')
import numpy as np, jax, jax.numpy as jnp
import logging; logging.disable(logging.CRITICAL)
from jax2onnx import to_onnx
if os.environ.get("JITFIX","1")=="1": import jitfix
from jax2onnx.plugins.plugin_system import PLUGIN_REGISTRY, EXAMPLE_REGISTRY, import_all_plugins
import onnxruntime as ort
ort.set_default_logger_severity(3)
import_all_plugins()
cases=[]
for name, plugin in PLUGIN_REGISTRY.items():
    md = getattr(plugin,'metadata',None)
    if not md: continue
    for tc in md.get('testcases',[]): cases.append((md.get('context'), md.get('component'), tc))
for md in EXAMPLE_REGISTRY.values():
    for tc in md.get('testcases',[]): cases.append((md.get('context'), md.get('component'), tc))
print("registry", len(PLUGIN_REGISTRY), "examples", len(EXAMPLE_REGISTRY), "testcases", len(cases))
shard=int(sys.argv[1]); nsh=int(sys.argv[2])
res=[]
for idx,(ctx,comp,tc) in enumerate(cases):
    if idx % nsh != shard: continue
    t0=time.time(); rec={"ctx":ctx,"comp":comp,"tc":tc.get("testcase"),"keys":sorted(k for k in tc.keys())}
    try:
        fn = tc.get("callable")
        if fn is None: rec["status"]="nocallable"; res.append(rec); continue
        if getattr(fn,"__jax2onnx_factory__",False): fn = fn.with_dtype(jnp.float32).instantiate()
        shapes=tc.get("input_shapes"); dts=tc.get("input_dtypes"); vals=tc.get("input_values")
        rng=np.random.default_rng(0)
        def rand(shape,dt):
            shape=tuple(2 if isinstance(d,str) else d for d in shape)
            dt=np.dtype(dt)
            if np.issubdtype(dt,np.floating): return (rng.standard_normal(shape)*0.25).astype(dt)
            if np.issubdtype(dt,np.integer): return rng.integers(0,5,shape).astype(dt)
            if dt==np.bool_: return rng.random(shape)>0.5
            return rng.standard_normal(shape).astype(dt)
        if shapes is not None:
            if dts: specs=[jax.ShapeDtypeStruct(tuple(s),d) for s,d in zip(shapes,dts)]; feeds=[rand(s,d) for s,d in zip(shapes,dts)]
            else: specs=[tuple(s) for s in shapes]; feeds=[rand(s,np.float32) for s in shapes]
        elif vals is not None:
            feeds=[np.asarray(v) for v in vals]; feeds=[f.astype(np.float32) if f.dtype==np.float64 else (f.astype(np.int32) if f.dtype==np.int64 else f) for f in feeds]
            specs=[jax.ShapeDtypeStruct(f.shape,f.dtype) for f in feeds]
        else: specs=[]; feeds=[]
        kw={}
        for k in ("inputs_as_nchw","outputs_as_nchw","normalization_mode","input_params"):
            if tc.get(k) is not None: kw[k]=tc[k]
        if tc.get("opset_version"): kw["opset"]=tc["opset_version"]
        m=to_onnx(fn, specs, **kw)
        rec["export_s"]=round(time.time()-t0,2); rec["nodes"]=len(m.graph.node); rec["bytes"]=m.ByteSize()
        rec["status"]="exported"
        if m.ByteSize() < 50_000_000:
          try:
            s=ort.InferenceSession(m.SerializeToString(), providers=["CPUExecutionProvider"])
            rec["status"]="loaded"
          except Exception as e:
            rec["status"]="ort_load_fail"; rec["err"]=str(e)[:200]
    except Exception as e:
        rec["status"]="export_fail"; rec["err"]=f"{type(e).__name__}: {str(e)[:160]}"
    rec["s"]=round(time.time()-t0,2)
    res.append(rec)
json.dump(res, open(f"/tmp/scratch/census_{os.environ.get('JITFIX','1')}_{shard}.json","w"))
print(shard, collections.Counter(r["status"] for r in res), sum(r.get("s",0) for r in res))
