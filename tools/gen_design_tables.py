#!/usr/bin/env python3
"""Rewrites the seeded-change table of DESIGN.md §5 (between the markers) from seeded/*/meta.json."""
import glob, json, os, re
ROOT = os.path.dirname(os.path.dirname(os.path.abspath(__file__)))
p = os.path.join(ROOT, "DESIGN.md")
s = open(p).read()
rows = []
cnt = {"yes": 0, "no": 0, "thorough": 0}
first = 0
for d in sorted(glob.glob(os.path.join(ROOT, "seeded", "*", "meta.json"))):
    m = json.load(open(d))
    cnt[m["detected_by_check"]] = cnt.get(m["detected_by_check"], 0) + 1
    if not m["detection_notes"].lower().startswith("missed") and m["detected_by_check"] == "yes":
        first += 1
    rows.append(f"| {m['property']} | `{m['slug']}` | {m['detected_by_check']} | {m['detection_notes']} |")
table = "| Prop | change | detected | how / what was strengthened |\n|---|---|---|---|\n" + "\n".join(rows)
summary = (f"\n\nOf the {len(rows)} seeded changes, {first} were caught by the first version of the check, "
           f"{cnt['yes'] - first} after strengthening a generator or an oracle (each strengthening is general, not a special case for the seeded input), "
           f"{cnt.get('thorough', 0)} only by the thorough tier or a neighbouring property's check, and {cnt.get('no', 0)} are not caught.\n")
begin, end = "<!-- SEEDED-TABLE-BEGIN -->", "<!-- SEEDED-TABLE-END -->"
if begin in s:
    s = s[: s.index(begin) + len(begin)] + "\n" + table + summary + s[s.index(end):]
else:
    i0 = s.index("| Prop | change | detected |")
    i1 = s.index("Own mutation experiments")
    s = s[:i0] + begin + "\n" + table + summary + end + "\n\n" + s[i1:]
open(p, "w").write(s)
print(len(rows), cnt, "first-version:", first)
