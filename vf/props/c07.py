"""C07 — ONNX function boundaries are transparent; bodies are shared only when equal."""

from __future__ import annotations

import numpy as np

from vf.core import Acc, derive_seed, digest

PROPERTY = "C07"
LEVEL = "exploration"
RULE = (
    "Hypothesis-generated histories of 2-6 call sites over a module-level library of building blocks (flax.nnx module, equinox module with a "
    "static field, plain Python class with numpy state and a string mode, free functions with keyword arguments, a two-input function, a function "
    "calling a function), each in plain / @onnx_function / @onnx_function(unique=True) twins, with generated weights (equal/different seeds), static "
    "configuration, keyword arguments, input shapes (full / sliced) and static vs symbolic batch; plus call sites whose positional argument is a "
    "constant of the caller's graph (closed-over vector / scalar differing between sites), a positional Python literal divisor, and a function with "
    "two call-time flags (to_onnx input_params) whose keyword arguments are spelled in either order, run for all four runtime flag values. Oracles: (1) ORT(decorated) == ORT(plain twin) "
    "== eager JAX; (2) two call nodes reference one (domain,name) definition only if their call sites are in the same semantic class (same block "
    "type, weights, static config, kwargs, input shape); (3) call arity == definition arity, every definition referenced. non-trivial = history "
    "with two sites of one block type differing in exactly one distinguishing field, or containing a nested function; distinct by history digest."
)
ASSUMPTIONS = [
    "the plain twin (same code without the decorator) defines what the decorated program must compute",
    "a decorated export that raises where the plain twin exports yields no model: counted as decorated_rejected",
    "decorated targets live at module level (decorating a local function is outside the caller contract)",
]


def site_class(s):
    """Everything that distinguishes what a call site computes (its input shape included)."""
    if s[0] in ("idf", "pick2"):
        return (s[0],)
    if s[0] in ("gc", "p", "gate"):
        # the constant / literal / flags are *arguments*: one definition may serve every site as long as each call node passes its own
        # values (the numeric oracle decides); gc with the scalar constants has another operand shape than with the vectors
        return (s[0], "scalar" if s[0] == "gc" and s[1] >= 2 else "")
    if s[0] == "g":
        return ("g", s[2] if len(s) > 2 else "full")  # the factor is applied outside the function body
    return tuple(s)


def history_strategy():
    from hypothesis import strategies as st
    from vf import blocks

    # besides the shared library: a two-input function whose second positional argument is a *constant of the caller's graph*
    # (closed-over array / scalar, differing between sites), a function dividing by a positional Python literal, and a function
    # with two call-time (runtime) flags whose keyword arguments are spelled in either order
    extra = st.one_of(
        st.tuples(st.just("gc"), st.integers(0, 3)).map(list),
        st.tuples(st.just("p"), st.sampled_from([2.0, 4.0, 0.5])).map(list),
        st.tuples(st.just("gate"), st.sampled_from(["ds", "sd"])).map(list),
        # a dtype-agnostic function called on equal shapes of different element types / widths
        # functions whose result *is* one of their arguments
        st.tuples(st.just("idf")).map(list),
        st.tuples(st.just("pick2"), st.sampled_from([0.5, 2.0])).map(list),
        st.tuples(st.just("mag"), st.sampled_from(["f32", "i32", "i16", "i8"])).map(list),  # float16: open finding C03-abs-after-astype-float16
    )
    base = st.one_of(blocks.site_strategy(), blocks.site_strategy(), extra)
    shaped = st.tuples(base, st.sampled_from(["full", "full", "half"])).map(lambda t: t[0] + [t[1]] if t[0][0] in ("fn", "g") else t[0])

    @st.composite
    def hist(draw):
        h = draw(st.lists(shaped, min_size=2, max_size=6))
        # bias: copy one site and change exactly one field
        if draw(st.booleans()):
            src = list(draw(st.sampled_from(h)))
            alt = list(src)
            if src[0] == "nnx":
                f = draw(st.integers(1, 4))
                alt[f] = {1: 1 - src[1], 2: 3.0 - src[2], 3: "relu" if src[3] == "tanh" else "tanh",
                          4: {-1.0: -2.0, -2.0: -1.0}.get(src[4], 4.0 - src[4])}[f]
            elif src[0] == "eqx":
                f = draw(st.integers(1, 2))
                alt[f] = {1: 1 - src[1], 2: 3 - src[2]}[f]
            elif src[0] == "cls":
                f = draw(st.integers(1, 2))
                alt[f] = {1: 1 - src[1], 2: "mul" if src[2] == "add" else "add"}[f]
            elif src[0] == "gc":
                alt[1] = (src[1] + draw(st.integers(1, 3))) % 4
            elif src[0] == "p":
                alt[1] = {2.0: 4.0, 4.0: 0.5, 0.5: 2.0}[src[1]]
            elif src[0] == "gate":
                alt[1] = "sd" if src[1] == "ds" else "ds"
            elif src[0] == "pick2":
                alt[1] = 2.5 - src[1]
            elif src[0] == "mag":
                alt[1] = {"f32": "i32", "i32": "i16", "i16": "i32", "i8": "i16"}[src[1]]
            elif src[0] == "fn":
                alt[1] = {-1.0: -2.0, -2.0: -1.0}.get(src[1], -src[1]) if draw(st.booleans()) else src[1]
                if len(alt) > 2 and alt[1] == src[1]:
                    alt[2] = "half" if src[2] == "full" else "full"
            h.insert(draw(st.integers(0, len(h))), alt)
        return h

    return hist()


def build(history, variant):
    import jax.numpy as jnp
    from vf import blocks

    insts = blocks.instances(history, variant)

    def fn(x, double=True, shift=False):
        acc = x
        for s, inst in zip(history, insts):
            half = len(s) > 2 and s[-1] == "half" and s[0] in ("fn", "g")
            if s[0] == "gc":
                g = {"plain": blocks.g_plain, "fn": blocks.g_fn, "uniq": blocks.g_uniq}[variant]
                acc = g(acc, jnp.asarray(blocks.CONSTS[s[1]]))
            elif s[0] == "p":
                acc = {"plain": blocks.p_plain, "fn": blocks.p_fn, "uniq": blocks.p_uniq}[variant](acc, s[1])
            elif s[0] == "idf":
                acc = {"plain": blocks.idf_plain, "fn": blocks.idf_fn, "uniq": blocks.idf_uniq}[variant](acc) * 1.25
            elif s[0] == "pick2":
                acc = acc + {"plain": blocks.pick2_plain, "fn": blocks.pick2_fn, "uniq": blocks.pick2_uniq}[variant](acc, acc * s[1]) * 0.5
            elif s[0] == "mag":
                mg = {"plain": blocks.mag_plain, "fn": blocks.mag_fn, "uniq": blocks.mag_uniq}[variant]
                # "f32" means the default float width (explicit float32 in a double-precision export is C09's subject, D15)
                r = mg(jnp.clip(acc * 4.0, -100.0, 100.0).astype(acc.dtype if s[1] == "f32" else blocks.MAG_DTYPES[s[1]]))
                acc = acc + (r[:, :4] + r[:, 4:]).astype(acc.dtype) * 0.01
            elif s[0] == "gate":
                gt = {"plain": blocks.gate_plain, "fn": blocks.gate_fn, "uniq": blocks.gate_uniq}[variant]
                acc = gt(acc * 0.5, double=double, shift=shift) if s[1] == "ds" else gt(acc * 0.5, shift=shift, double=double)
            elif s[0] == "nnx":
                acc = acc + inst(acc, gain=s[4])
            elif s[0] == "eqx":
                acc = acc * 0.5 + inst(acc)
            elif s[0] == "cls":
                acc = inst(acc)
            elif s[0] == "fn":
                f = {"plain": blocks.f_plain, "fn": blocks.f_fn, "uniq": blocks.f_uniq}[variant]
                acc = jnp.concatenate([f(acc[:, :2], k=s[1]), acc[:, 2:]], axis=1) if half else f(acc, k=s[1])
            elif s[0] == "g":
                g = {"plain": blocks.g_plain, "fn": blocks.g_fn, "uniq": blocks.g_uniq}[variant]
                acc = jnp.concatenate([g(acc[:, :2], acc[:, :2] * s[1]), acc[:, 2:]], axis=1) if half else g(acc, acc * s[1])
            elif s[0] == "outer2":
                acc = {"plain": blocks.outer2_plain, "fn": blocks.outer2_fn, "uniq": blocks.outer2_uniq}[variant](acc)
            else:
                acc = {"plain": blocks.outer_plain, "fn": blocks.outer_fn, "uniq": blocks.outer_uniq}[variant](acc)
        return acc

    return fn


def check_history(history, variant, sym, acc=None):
    import jax.numpy as jnp
    from vf import jaxutil, onnxutil, scopewalk

    out = []
    case = {"kind": "history", "history": history, "variant": variant, "sym": sym}
    spec = [("B", 4)] if sym else [(3, 4)]
    x = np.random.RandomState(1).randn(5 if sym else 3, 4).astype(np.float32)
    fp = build(history, "plain")
    fd = build(history, variant)
    gated = any(s[0] == "gate" for s in history)
    kw = {"input_params": {"double": True, "shift": False}} if gated else {}
    flagsets = [(d_, s_) for d_ in (True, False) for s_ in (True, False)] if gated else [(True, False)]
    try:
        exps = [np.asarray(fp(jnp.asarray(x), double=d_, shift=s_)) for d_, s_ in flagsets]
        exp = exps[0]
        mp = jaxutil.to_onnx(fp, spec, **kw)
    except Exception as e:
        if acc:
            acc.tally("status", "plain_rejected")
            acc.case()
        return out
    try:
        md = jaxutil.to_onnx(fd, spec, **kw)
    except Exception as e:
        if acc:
            acc.tally("status", "decorated_rejected")
            acc.tally("rejected_reasons", f"{type(e).__name__}: {str(e)[:80]}")
            acc.case()
        return out

    baked = {"double": True, "shift": False}

    def run(m):
        # input_params only become graph inputs where a call-time parameter of a function (or a plugin) references them; elsewhere the
        # given value is baked into the model, and only flag sets that agree with the baked value are comparable
        s = onnxutil.session(m)
        names = {i.name for i in s.get_inputs()}
        res = {}
        for d_, s_ in flagsets:
            if ("double" not in names and d_ != baked["double"]) or ("shift" not in names and s_ != baked["shift"]):
                continue
            fd_ = {i.name: (np.asarray(d_) if i.name == "double" else np.asarray(s_) if i.name == "shift" else x) for i in s.get_inputs()}
            res[(d_, s_)] = s.run(None, fd_)[0]
        return res

    types = sorted({s[0] for s in history})
    try:
        gps, gds = run(mp), run(md)
    except Exception as e:
        out.append({"sig": {"kind": "ort_error", "variant": variant}, "case": case, "detail": str(e)[:300]})
        return out
    if acc and gated:
        acc.tally("runtime_flag_sets_compared", str(len(gds)))
    for (d_, s_), exp in zip(flagsets, exps):
        if (d_, s_) not in gds:
            continue
        gd = gds[(d_, s_)]
        gp = gps.get((d_, s_), gd)
        tol = dict(rtol=2e-4, atol=2e-5 * max(1, float(np.abs(exp).max())))
        fin = np.isfinite(exp)
        if fin.any() and not (np.allclose(gd[fin], gp[fin], **tol) and np.allclose(gd[fin], exp[fin], **tol)):
            out.append({"sig": {"kind": "numeric", "variant": variant, "block_types": types}, "case": case,
                        "detail": f"decorated vs plain max diff {np.nanmax(np.abs(gd - gp)):.3g}, vs jax {np.nanmax(np.abs(gd - exp)):.3g}"
                                  + (f" at runtime flags double={d_} shift={s_}" if gated else "")})
            break
    # arity + referenced + scope rules (independent walker)
    for p in scopewalk.walk(md):
        if "call" in p or "function" in p:
            out.append({"sig": {"kind": "arity_or_reference", "variant": variant}, "case": case, "detail": p})
            break
    defs = {(f.domain, f.name) for f in md.functions}
    calls = [n for n in md.graph.node if (n.domain, n.op_type) in defs]
    classes = [site_class(s) for s in history]
    if len(calls) == len(history):
        for i in range(len(calls)):
            for j in range(i + 1, len(calls)):
                same_def = (calls[i].domain, calls[i].op_type) == (calls[j].domain, calls[j].op_type)
                if same_def and classes[i] != classes[j]:
                    diff = [k for k in range(min(len(history[i]), len(history[j]))) if history[i][k] != history[j][k]]
                    out.append({"sig": {"kind": "wrong_sharing", "variant": variant, "block_type": history[i][0],
                                        "differing_field": diff[0] if diff else -1}, "case": case,
                                "detail": f"sites {i} {history[i]} and {j} {history[j]} share definition {calls[i].op_type}"})
                    break
            else:
                continue
            break
    elif acc:
        acc.tally("status", "call_count_differs_from_history(no_sharing_check)")
    # non-trivial: two sites of one type differing in exactly one field, or a nested function
    nt = any(s[0] in ("outer", "outer2") for s in history)
    for i in range(len(history)):
        for j in range(i + 1, len(history)):
            a, b = history[i], history[j]
            if a[0] == b[0] and len(a) == len(b) and sum(1 for k in range(len(a)) if a[k] != b[k]) == 1:
                nt = True
    if acc:
        acc.case(key=digest([history, variant, sym]), nontrivial=nt)
        acc.tally("status", "violation" if out else "ok")
        acc.count("call_sites", len(history))
        acc.count("definitions", len(md.functions))
        acc.count("semantic_classes", len(set(classes)))
        for t in types:
            acc.tally("block_types", t)
    return out


def plan(tier, seed):
    n = 16 if tier == "quick" else 48
    return [{"kind": "hist", "shard": i, "seed": seed, "examples": 9 if tier == "quick" else 150} for i in range(n)]


def work(sh):
    import hypothesis
    from hypothesis import HealthCheck, Phase, given, settings, strategies as st

    acc = Acc()

    @hypothesis.seed(derive_seed(sh["seed"], "c07", sh["shard"]))
    @settings(max_examples=sh["examples"], deadline=None, database=None, suppress_health_check=list(HealthCheck),
              phases=[Phase.generate], report_multiple_bugs=False)
    @given(history_strategy(), st.sampled_from(["fn", "uniq"]), st.booleans())
    def t(history, variant, sym):
        vs = check_history(history, variant, sym, acc)
        if not vs and len(acc.samples) < 2:
            acc.samples.append({"history": history, "variant": variant, "symbolic_batch": sym})
        for v in vs:
            acc.violation(v["sig"], v["case"], v["detail"])

    t()
    return acc.to_dict()


def replay(case):
    return check_history(case["history"], case["variant"], case["sym"], None)
