import sys; sys.path.insert(0,'/tmp')
import jax, jax.numpy as jnp, numpy as np, onnx
from jax2onnx import to_onnx
import jitfix
import onnxruntime as ort
ort.set_default_logger_severity(4)
run=lambda m,feeds: (lambda s: s.run(None,{i.name:f for i,f in zip(s.get_inputs(),feeds)}))(ort.InferenceSession(m.SerializeToString()))
def chk(name, fn, specs, feeds):
    try:
        m=to_onnx(fn,specs); got=run(m,feeds); exp=jax.tree_util.tree_leaves(fn(*feeds))
        ok=all(g.shape==np.asarray(e).shape and np.allclose(g,np.asarray(e),rtol=1e-5,atol=1e-6) for g,e in zip(got,exp))
        print(name,"OK" if ok else "MISMATCH",[n.op_type for n in m.graph.node],[(g.shape,np.asarray(e).shape) for g,e in zip(got,exp)] if not ok else "")
    except Exception as e: print(name,"FAIL",type(e).__name__,str(e)[:250])
x=np.random.RandomState(0).randn(2,3,4,5).astype(np.float32)
def f1(x):
    a=jnp.transpose(x,(0,3,1,2)); b=jax.nn.relu(a); return jnp.transpose(b,(0,2,3,1)), b
chk("mid_is_output", f1, [(2,3,4,5)], [x])
def f2(x,y):
    a=jnp.transpose(x,(0,3,1,2)); b=jnp.maximum(a,y); return jnp.transpose(b,(0,2,3,1))
y=np.random.RandomState(1).randn(2,5,3,4).astype(np.float32)
chk("max_side", f2, [(2,3,4,5),(2,5,3,4)], [x,y])
xs=np.random.RandomState(0).randn(2,3,3,3).astype(np.float32); ys=np.random.RandomState(1).randn(2,3,3,3).astype(np.float32)
chk("max_side_sq", f2, [(2,3,3,3),(2,3,3,3)], [xs,ys])
def f3(x,w):
    a=jnp.reshape(x,(6,20)); b=jnp.maximum(a,w); return jnp.reshape(b,(2,3,4,5))
w=np.random.RandomState(2).randn(6,20).astype(np.float32)
chk("reshape_max_side", f3, [(2,3,4,5),(6,20)], [x,w])
def f4(x):
    return jnp.reshape(jnp.reshape(x,(-1,)),(x.shape[1],x.shape[0]))
chk("reshape_sym_swap", f4, [("B","N")], [np.arange(6,dtype=np.float32).reshape(2,3)])
def f5(x):
    a=jnp.transpose(x,(0,3,1,2)); r=jnp.mean(a,axis=(2,3),keepdims=True); return jnp.transpose(r,(0,2,3,1)), r
chk("reduce_out", f5, [(2,3,4,5)], [x])
import onnx.inliner; print("inliner:", hasattr(onnx.inliner,"inline_local_functions"))
print("FunctionProto.value_info:", 'value_info' in [f.name for f in onnx.FunctionProto.DESCRIPTOR.fields])
