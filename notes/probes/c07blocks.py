# module-level building blocks: plain twin / decorated twin / unique twin
import jax, jax.numpy as jnp, numpy as np
from flax import nnx
import equinox as eqx
from jax2onnx import onnx_function
class _NnxBlk(nnx.Module):
    def __init__(self, seed, scale, act, din=4):
        self.l=nnx.Linear(din,4,rngs=nnx.Rngs(seed)); self.scale=scale; self.act=act
    def __call__(self,x,*,gain=1.0):
        h=self.l(x)*self.scale*gain
        return jnp.tanh(h) if self.act=="tanh" else jax.nn.relu(h)
class NnxPlain(_NnxBlk): pass
@onnx_function
class NnxFn(_NnxBlk): pass
@onnx_function(unique=True)
class NnxUniq(_NnxBlk): pass
class _EqxBlk(eqx.Module):
    w: jax.Array
    k: int = eqx.field(static=True)
    def __call__(self,x): return (x@self.w)**self.k
class EqxPlain(_EqxBlk): pass
@onnx_function
class EqxFn(_EqxBlk): pass
@onnx_function(unique=True)
class EqxUniq(_EqxBlk): pass
def f_plain(x,*,k=1.0): return jnp.sin(x)*k+x
@onnx_function
def f_fn(x,*,k=1.0): return jnp.sin(x)*k+x
@onnx_function(unique=True)
def f_uniq(x,*,k=1.0): return jnp.sin(x)*k+x
@onnx_function
def outer_fn(x): return f_fn(x,k=2.0)+f_fn(x*0.5,k=2.0)
def outer_plain(x): return f_plain(x,k=2.0)+f_plain(x*0.5,k=2.0)
