"""Layer B of C02 (raw lowered models) — filled in once progen exists."""


def work(sh, acc):
    return


def replay(case):
    return []
