import sys; sys.path.insert(0,'/tmp')
import jax, jax.numpy as jnp, numpy as np
from jax import lax
from jax2onnx import to_onnx
import jitfix
import onnxruntime as ort
def sess(fn, specs, **kw):
    m = to_onnx(fn, specs, **kw)
    return ort.InferenceSession(m.SerializeToString()), m
def check(name, fn, specs, feed_lists):
    try:
        s,m = sess(fn, specs)
    except Exception as e:
        print(name, "EXPORT RAISES", type(e).__name__, str(e)[:150]); return
    for feeds in feed_lists:
        try:
            got = s.run(None, {i.name: f for i,f in zip(s.get_inputs(), feeds)})
            exp = jax.tree_util.tree_leaves(fn(*feeds))
            ok = all(np.asarray(e).shape==g.shape and np.allclose(np.asarray(e), g, rtol=1e-5, atol=1e-6) for e,g in zip(exp,got)) and len(exp)==len(got)
            print(name, [np.asarray(f).tolist() if np.asarray(f).size<4 else np.asarray(f).shape for f in feeds], "OK" if ok else f"MISMATCH got={[g.tolist() for g in got]} exp={[np.asarray(e).tolist() for e in exp]}")
        except Exception as e:
            print(name, "RUN FAIL", type(e).__name__, str(e)[:200])
i32 = lambda v: np.asarray(v, np.int32)
f32 = lambda v: np.asarray(v, np.float32)
S = jax.ShapeDtypeStruct
# while with data-dependent exit
def w1(x, n): return lax.while_loop(lambda c: c[1] < n, lambda c: (c[0]*2+1, c[1]+1), (x, jnp.int32(0)))
check("while_dyn", w1, [S((3,),np.float32), S((),np.int32)], [[f32([1,2,3]), i32(k)] for k in (0,1,3,-2)])
# fori with static bounds
def fo(x): return lax.fori_loop(0, 0, lambda i,c: c+i, x)
check("fori_zero", fo, [S((3,),np.float32)], [[f32([1,2,3])]])
def fo2(x, n): return lax.fori_loop(0, n, lambda i,c: c+i, x)
check("fori_dyn", fo2, [S((3,),np.float32), S((),np.int32)], [[f32([1,2,3]), i32(k)] for k in (0,1,4)])
def fo3(x): return lax.fori_loop(2, 5, lambda i,c: c*2+i, x)
check("fori_2_5", fo3, [S((3,),np.float32)], [[f32([1,2,3])]])
# scan
def sc(xs, c0): return lax.scan(lambda c,x: (c+x.sum(), c*x), c0, xs)
check("scan_sym", sc, [S(("T",2),np.float32), S((),np.float32)], [[f32(np.arange(2*T).reshape(T,2)), f32(1.5)] for T in (0,1,2,5)])
def scr(xs, c0): return lax.scan(lambda c,x: (c+x.sum(), c*x), c0, xs, reverse=True)
check("scan_rev", scr, [S((3,2),np.float32), S((),np.float32)], [[f32(np.arange(6).reshape(3,2)), f32(1.5)]])
# cond both branches, captured
def cd(p, x, y): 
    k = y*3
    return lax.cond(p, lambda a: a+k, lambda a: a-k.sum(), x)
check("cond", cd, [S((),np.bool_), S((3,),np.float32), S((3,),np.float32)], [[np.asarray(b), f32([1,2,3]), f32([1,1,2])] for b in (True, False)])
def sw(i, x): return lax.switch(i, [lambda a:a+1, lambda a:a*2, lambda a:-a], x)
check("switch3", sw, [S((),np.int32), S((3,),np.float32)], [[i32(k), f32([1,2,3])] for k in (0,1,2,5,-1)])
def sw2(i, x): return lax.switch(i, [lambda a:a+1, lambda a:a*2], x)
check("switch2", sw2, [S((),np.int32), S((3,),np.float32)], [[i32(k), f32([1,2,3])] for k in (0,1,2,5,-1)])
# nested: scan inside while with cond
def nest(x, n):
    def body(c):
        v,i = c
        v2,_ = lax.scan(lambda a,b: (lax.cond(b>1, lambda t:t+b, lambda t:t*b, a), a), v, jnp.arange(3, dtype=jnp.float32))
        return v2, i+1
    return lax.while_loop(lambda c: c[1]<n, body, (x, jnp.int32(0)))
check("nest", nest, [S((),np.float32), S((),np.int32)], [[f32(1.0), i32(k)] for k in (0,1,2)])
