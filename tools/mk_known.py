#!/usr/bin/env python3
"""Turn the replays of the latest run into *open* known-finding entries (after manual triage!).
usage: tools/mk_known.py Cxx key1,key2[,..] [--filter key=value] [--prefix text]
Existing entries are kept; new ones are appended (id = Cxx-<values of keys>)."""
import json, os, sys, glob
ROOT = os.path.dirname(os.path.dirname(os.path.abspath(__file__)))
prop = sys.argv[1]; keys = sys.argv[2].split(",")
flt = dict(a.split("=", 1) for a in sys.argv[3:] if "=" in a and not a.startswith("--"))
path = os.path.join(ROOT, "known_findings", f"{prop}.json")
data = json.load(open(path)) if os.path.exists(path) else {"entries": []}
have = {e["id"] for e in data["entries"]}
added = 0
for f in sorted(glob.glob(os.path.join(ROOT, "replays", prop, "*.json"))):
    r = json.load(open(f)); sig = r["sig"]
    if any(str(sig.get(k)) != v for k, v in flt.items()):
        continue
    if any(k not in sig for k in keys):
        continue
    ident = prop + "-" + "-".join(str(sig[k]) for k in keys).replace(" ", "_").replace("/", "_")
    if ident in have:
        continue
    have.add(ident)
    data["entries"].append({"id": ident, "status": "open", "match": {k: sig[k] for k in keys}, "summary": r.get("detail", "")[:220].replace("\n", " "), "repro": r["case"]})
    added += 1
json.dump(data, open(path, "w"), indent=1)
print("added", added, "entries; total", len(data["entries"]))
