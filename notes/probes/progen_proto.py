"""Throw-away prototype: typed expression grammar -> JAX callable, driven by Hypothesis."""
import sys, os, time, json, warnings, collections
warnings.filterwarnings("ignore")
sys.path.insert(0,'/tmp/scratch_repo')
import numpy as np, jax, jax.numpy as jnp
from jax import lax
import logging; logging.disable(logging.CRITICAL)
from jax2onnx import to_onnx
import onnxruntime as ort
ort.set_default_logger_severity(4)
import hypothesis
from hypothesis import given, settings, strategies as st, seed, HealthCheck, Phase

SHAPES=[(),(3,),(2,3),(3,1),(1,3),(2,1,3),(2,2,3)]
F,I,B="f","i","b"
UN_F={"sin":jnp.sin,"tanh":jnp.tanh,"exp_c":lambda x:jnp.exp(jnp.clip(x,-20,20)),"log_a":lambda x:jnp.log(jnp.abs(x)+0.5),"sqrt_a":lambda x:jnp.sqrt(jnp.abs(x)),
      "floor":jnp.floor,"ceil":jnp.ceil,"round":jnp.round,"lax_round_away":lambda x:lax.round(x,lax.RoundingMethod.AWAY_FROM_ZERO),"lax_round_even":lambda x:lax.round(x,lax.RoundingMethod.TO_NEAREST_EVEN),
      "sign":jnp.sign,"abs":jnp.abs,"neg":jnp.negative,"relu":jax.nn.relu,"gelu":jax.nn.gelu,"sigmoid":jax.nn.sigmoid,"softplus":jax.nn.softplus,"log_sigmoid":jax.nn.log_sigmoid,
      "silu":jax.nn.silu,"elu":jax.nn.elu,"square":jnp.square,"trunc":jnp.trunc,"rint":jnp.rint,"erf":jax.scipy.special.erf,"softmax":lambda x: jax.nn.softmax(x,axis=-1) if x.ndim else x,"cumsum":lambda x: jnp.cumsum(x,axis=-1) if x.ndim else x}
BIN_F={"add":jnp.add,"sub":jnp.subtract,"mul":jnp.multiply,"div_g":lambda a,b:a/(jnp.abs(b)+0.5),"max":jnp.maximum,"min":jnp.minimum,"fmod_g":lambda a,b:jnp.fmod(a,jnp.abs(b)+0.5),"rem_g":lambda a,b:jnp.remainder(a,jnp.abs(b)+0.5),
       "floordiv_g":lambda a,b:jnp.floor_divide(a,jnp.abs(b)+0.5),"pow_g":lambda a,b:jnp.power(jnp.abs(a)+0.5,jnp.clip(b,-3,3)),"atan2":jnp.arctan2,"copysign":jnp.copysign,"hypot":jnp.hypot}
UN_I={"neg":jnp.negative,"abs":jnp.abs,"sign":jnp.sign,"square":jnp.square,"invert":jnp.invert}
BIN_I={"add":jnp.add,"sub":jnp.subtract,"mul":jnp.multiply,"max":jnp.maximum,"min":jnp.minimum,"floordiv_nz":lambda a,b:jnp.floor_divide(a,jnp.where(b==0,1,b)),"rem_nz":lambda a,b:jnp.remainder(a,jnp.where(b==0,1,b)),
       "and":jnp.bitwise_and,"or":jnp.bitwise_or,"xor":jnp.bitwise_xor,"shl":lambda a,b:jnp.left_shift(a,jnp.clip(b,0,7)),"shr":lambda a,b:jnp.right_shift(a,jnp.clip(b,0,7))}
CMP={"lt":jnp.less,"le":jnp.less_equal,"eq":jnp.equal,"ne":jnp.not_equal,"gt":jnp.greater}
RED_F={"sum":jnp.sum,"mean":jnp.mean,"max":jnp.max,"min":jnp.min,"prod":jnp.prod,"logsumexp":jax.scipy.special.logsumexp}
def bshape(a,b):
    try: return tuple(np.broadcast_shapes(a,b))
    except ValueError: return None
@st.composite
def expr(draw, kind, shape, depth, ninp, inputs):
    """returns json tree; inputs: list of (kind,shape)"""
    cands=[i for i,(k,s) in enumerate(inputs) if k==kind and s==shape]
    if depth<=0 or (cands and draw(st.integers(0,5))==0):
        if cands: return {"op":"in","i":draw(st.sampled_from(cands))}
        # derive from any same-kind input via broadcast/reshape when possible
        alt=[i for i,(k,s) in enumerate(inputs) if k==kind and bshape(s,shape)==shape]
        if alt: return {"op":"bcast","shape":shape,"a":{"op":"in","i":draw(st.sampled_from(alt))}}
        if kind==F: return {"op":"constf","v":draw(st.sampled_from([0.5,-1.5,2.0,0.0,3.25])),"shape":shape}
        if kind==I: return {"op":"consti","v":draw(st.integers(-3,4)),"shape":shape}
        return {"op":"constb","v":draw(st.booleans()),"shape":shape}
    choices=[]
    if kind==F: choices=["un","bin","where","casti","red","reshape","transpose","bcast"]
    if kind==I: choices=["un","bin","where","castf","argmax","reshape"]
    if kind==B: choices=["cmpf","cmpi","not","and"]
    c=draw(st.sampled_from(choices))
    sub=lambda k,s: draw(expr(k,s,depth-1,ninp,inputs))
    def operand_shapes():
        # pick operand shapes that broadcast to `shape`
        opts=[(a,b) for a in SHAPES for b in SHAPES if bshape(a,b)==shape]
        return draw(st.sampled_from(opts)) if opts else (shape,shape)
    if c=="un": return {"op":"un","k":kind,"f":draw(st.sampled_from(sorted(UN_F if kind==F else UN_I))),"a":sub(kind,shape)}
    if c=="bin":
        sa,sb=operand_shapes(); return {"op":"bin","k":kind,"f":draw(st.sampled_from(sorted(BIN_F if kind==F else BIN_I))),"a":sub(kind,sa),"b":sub(kind,sb)}
    if c=="where": return {"op":"where","c":sub(B,shape),"a":sub(kind,shape),"b":sub(kind,shape)}
    if c=="casti": return {"op":"cast","to":"f","a":sub(I,shape)}
    if c=="castf": return {"op":"cast","to":"i","a":sub(F,shape)}
    if c=="red":
        srcs=[(s,ax,kd) for s in SHAPES if len(s)>=1 for ax in range(len(s)) for kd in (False,True) if (tuple(1 if i==ax else d for i,d in enumerate(s)) if kd else tuple(d for i,d in enumerate(s) if i!=ax))==shape]
        if not srcs: return sub(kind,shape)
        s,ax,kd=draw(st.sampled_from(srcs)); return {"op":"red","f":draw(st.sampled_from(sorted(RED_F))),"axis":ax,"keepdims":kd,"a":sub(F,s)}
    if c=="argmax":
        srcs=[(s,ax) for s in SHAPES if len(s)>=1 for ax in range(len(s)) if tuple(d for i,d in enumerate(s) if i!=ax)==shape]
        if not srcs: return sub(kind,shape)
        s,ax=draw(st.sampled_from(srcs)); return {"op":"argmax","axis":ax,"a":sub(F,s)}
    if c=="reshape":
        n=int(np.prod(shape)) if shape else 1
        srcs=[s for s in SHAPES if (int(np.prod(s)) if s else 1)==n and s!=shape]
        if not srcs: return sub(kind,shape)
        return {"op":"reshape","shape":shape,"a":sub(kind,draw(st.sampled_from(srcs)))}
    if c=="transpose":
        if len(shape)<2: return sub(kind,shape)
        perm=draw(st.permutations(range(len(shape)))); src=tuple(shape[perm.index(i)] for i in range(len(shape)))
        if src not in SHAPES: return sub(kind,shape)
        return {"op":"transpose","perm":list(perm),"a":sub(kind,src)}
    if c=="bcast":
        srcs=[s for s in SHAPES if s!=shape and bshape(s,shape)==shape]
        if not srcs: return sub(kind,shape)
        return {"op":"bcast","shape":shape,"a":sub(kind,draw(st.sampled_from(srcs)))}
    if c=="cmpf":
        sa,sb=operand_shapes(); return {"op":"cmp","f":draw(st.sampled_from(sorted(CMP))),"a":sub(F,sa),"b":sub(F,sb)}
    if c=="cmpi":
        sa,sb=operand_shapes(); return {"op":"cmp","f":draw(st.sampled_from(sorted(CMP))),"a":sub(I,sa),"b":sub(I,sb)}
    if c=="not": return {"op":"not","a":sub(B,shape)}
    if c=="and": return {"op":"and","a":sub(B,shape),"b":sub(B,shape)}
def build(t):
    def ev(t,xs):
        o=t["op"]
        if o=="in": return xs[t["i"]]
        if o=="constf": return jnp.full(t["shape"],t["v"],jnp.float32)
        if o=="consti": return jnp.full(t["shape"],t["v"],jnp.int32)
        if o=="constb": return jnp.full(t["shape"],t["v"],jnp.bool_)
        if o=="un": return (UN_F if t["k"]==F else UN_I)[t["f"]](ev(t["a"],xs))
        if o=="bin": return (BIN_F if t["k"]==F else BIN_I)[t["f"]](ev(t["a"],xs),ev(t["b"],xs))
        if o=="where": return jnp.where(ev(t["c"],xs),ev(t["a"],xs),ev(t["b"],xs))
        if o=="cast": return ev(t["a"],xs).astype(jnp.float32 if t["to"]=="f" else jnp.int32)
        if o=="red": return RED_F[t["f"]](ev(t["a"],xs),axis=t["axis"],keepdims=t["keepdims"])
        if o=="argmax": return jnp.argmax(ev(t["a"],xs),axis=t["axis"]).astype(jnp.int32)
        if o=="reshape": return jnp.reshape(ev(t["a"],xs),t["shape"])
        if o=="transpose": return jnp.transpose(ev(t["a"],xs),t["perm"])
        if o=="bcast": return jnp.broadcast_to(ev(t["a"],xs),t["shape"])
        if o=="cmp": return CMP[t["f"]](ev(t["a"],xs),ev(t["b"],xs))
        if o=="not": return jnp.logical_not(ev(t["a"],xs))
        if o=="and": return jnp.logical_and(ev(t["a"],xs),ev(t["b"],xs))
        raise KeyError(o)
    return lambda *xs: ev(t,xs)
POOL=[0.0,-0.0,0.5,-0.5,1.5,-1.5,2.5,-2.5,1.0,-1.0,2.0,-2.0,3.0,-7.25,1e-3,-1e-3,0.49999997,40.0,-40.0,88.0,-88.0]
@st.composite
def case(draw):
    ninp=draw(st.integers(1,3))
    inputs=[(draw(st.sampled_from([F,F,F,I])),draw(st.sampled_from(SHAPES))) for _ in range(ninp)]
    kind=draw(st.sampled_from([F,F,F,I,B])); shape=draw(st.sampled_from(SHAPES))
    t=draw(expr(kind,shape,draw(st.integers(1,4)),ninp,inputs))
    feeds=[]
    for k,s in inputs:
        n=int(np.prod(s)) if s else 1
        if k==F: v=draw(st.lists(st.sampled_from(POOL)|st.floats(-8,8,width=32),min_size=n,max_size=n)); feeds.append(np.asarray(v,np.float32).reshape(s))
        else: v=draw(st.lists(st.integers(-5,9),min_size=n,max_size=n)); feeds.append(np.asarray(v,np.int32).reshape(s))
    return inputs,t,feeds
def ops_in(t,acc):
    if isinstance(t,dict):
        acc[t["op"]+(":"+t["f"] if "f" in t else "")]+=1
        for v in t.values(): ops_in(v,acc)
    return acc
stats=collections.Counter(); opstats=collections.Counter(); fails=[]; T0=time.time()
@seed(int(os.environ.get("VERIF_SEED","1")))
@settings(max_examples=int(sys.argv[1]) if len(sys.argv)>1 else 100, deadline=None, database=None, suppress_health_check=list(HealthCheck), phases=[Phase.generate])
@given(case())
def test(c):
    inputs,t,feeds=c
    fn=build(t)
    used={n["i"] for n in [x for x in _walk(t)] if n["op"]=="in"}
    ops_in(t,opstats)
    specs=[jax.ShapeDtypeStruct(s,np.float32 if k==F else np.int32) for k,s in inputs]
    try: m=to_onnx(fn,specs)
    except Exception as e:
        stats["export_raises:"+type(e).__name__]+=1; fails.append(("export",type(e).__name__,str(e)[:100],json.dumps(t)[:300])); return
    try:
        so=ort.SessionOptions(); so.graph_optimization_level=ort.GraphOptimizationLevel.ORT_DISABLE_ALL
        s=ort.InferenceSession(m.SerializeToString(),so,providers=["CPUExecutionProvider"])
        got=s.run(None,{i.name:f for i,f in zip(s.get_inputs(),feeds)})[0]
    except Exception as e:
        stats["ort_error"]+=1; fails.append(("ort",str(e)[:150],json.dumps(t)[:300])); return
    exp=np.asarray(fn(*[jnp.asarray(f) for f in feeds]))
    jax.config.update("jax_enable_x64",True)
    try: ref=np.asarray(fn(*[jnp.asarray(f.astype(np.float64) if f.dtype.kind=='f' else f) for f in feeds]))
    except Exception: ref=None
    finally: jax.config.update("jax_enable_x64",False)
    if got.shape!=exp.shape: stats["shape_mismatch"]+=1; fails.append(("shape",got.shape,exp.shape,json.dumps(t)[:300])); return
    if exp.dtype.kind=='f':
        r=ref.astype(np.float64) if ref is not None and ref.shape==exp.shape and ref.dtype.kind=='f' else exp.astype(np.float64)
        fin=np.isfinite(r)&np.isfinite(exp)
        if not fin.any(): stats["trivial_nonfinite"]+=1; return
        scale=max(1.0,np.abs(r[fin]).max()); own=np.abs(exp.astype(np.float64)-r); own=np.where(np.isfinite(own),own,np.inf)
        with np.errstate(all='ignore'): bad=fin&~(np.abs(got.astype(np.float64)-r)<=2e-5*scale+2e-4*np.abs(r)+16*own)
        if bad.any():
            j=tuple(np.argwhere(bad)[0]); stats["value_mismatch"]+=1; fails.append(("value",str(got[j]),str(exp[j]),str(r[j]),json.dumps(t)[:400],[f.tolist() for f in feeds])); return
    else:
        # discrete outputs: mask positions where jax32 and jax64 disagree (ill-conditioned)
        agree=np.ones(exp.shape,bool) if ref is None or ref.shape!=exp.shape else (ref.astype(np.int64)==exp.astype(np.int64))
        if not agree.any(): stats["trivial_illcond"]+=1; return
        if not np.array_equal(got.astype(np.int64)[agree],exp.astype(np.int64)[agree]):
            stats["int_mismatch"]+=1; fails.append(("int",got.tolist(),exp.tolist(),json.dumps(t)[:400],[f.tolist() for f in feeds])); return
    stats["ok"]+=1
def _walk(t):
    if isinstance(t,dict):
        yield t
        for v in t.values(): yield from _walk(v)
test()
print("time",round(time.time()-T0,1),dict(stats))
print("distinct op kinds:",len(opstats),"top:",opstats.most_common(12))
seen=set()
for f in fails:
    key=(f[0],str(f[1])[:40])
    if key in seen: continue
    seen.add(key); print(f)
