"""C02 — the graph optimizer never changes what a model computes.

Layer A: graphgen specs (pattern-seeded neighbourhoods + free steps, generated output sets),
per-pass differential ORT(raw) vs ORT(after pass k) on the same feeds.
Layer B: raw lowered models of generated JAX programs captured before optimization, with
random intermediates promoted to extra graph outputs (see c02 lowered shard).
"""

from __future__ import annotations

import os

import numpy as np
import onnx

from vf.core import Acc, derive_seed, digest

PROPERTY = "C02"
LEVEL = "exploration"
RULE = (
    "Hypothesis-generated small ONNX graphs (2-25 nodes) built from pattern-seeded neighbourhoods of every rewrite rule "
    "(transpose pairs / elementwise forests / transpose-reduce / add forests / reshape pairs / identity reshapes / cast pairs / "
    "Mul*Sigmoid / Dropout+Not / CSE duplicates / Range casts with strides and spans that are not multiples of the stride / If and Loop captures, "
    "half of them aimed at the interior value of a fold, a third nested two levels deep) mixed with free random steps and with calls of model-local "
    "functions that merely share the name of an operator the rules match on (custom.Tanh.1::Tanh with a non-elementwise body), with symbolic "
    "dims (none, one, two symbols; bindings 1..4) and a generated subset of all values as graph outputs; plus raw lowered models of "
    "generated JAX programs with random intermediates promoted to outputs. Oracle: after every optimizer pass the model must pass the "
    "full checker, load in ORT and return the same outputs (count, order, dtype, runtime shape, values: exact for int/bool, rtol 1e-6 "
    "for floats, NaN==NaN) as the raw model on the same feeds. non-trivial = at least one pass changed the serialized graph "
    "(name_fix / lift_constants alone do not count); distinct by digest of the spec."
)
ASSUMPTIONS = [
    "ORT CPU (1 thread, ORT graph optimizations disabled) is the executable semantics of both the raw and the optimized model",
    "optimized models are fed only the inputs they still declare (pruning an unused input is allowed)",
    "Dropout with a dynamic training_mode is excluded (random at run time, no deterministic oracle)",
    "models ORT cannot load because the kernel is missing (Swish at opset 24) are executed with onnx.reference instead",
]

NEUTRAL = ("name_fix", "lift_constants_to_initializers")


def _passes():
    from jax2onnx.converter import ir_optimizations as opt

    return opt._OPTIMIZER_PASSES


class EngineGap(Exception):
    pass


def _run_reference(model, feeds):
    from onnx.reference import ReferenceEvaluator

    names = {i.name for i in model.graph.input}
    return ReferenceEvaluator(model).run(None, {k: v for k, v in feeds.items() if k in names}), "reference"


def _run_any(model, feeds, engine=None):
    """ORT first; onnx.reference fallback for kernels ORT lacks. Returns (outputs, engine)."""
    from vf import onnxutil

    if engine == "reference":
        return _run_reference(model, feeds)
    try:
        sess = onnxutil.session(model)
    except Exception as e:
        msg = str(e)
        if "NOT_IMPLEMENTED" in msg or "Could not find an implementation" in msg or "is under development" in msg:
            try:
                return _run_reference(model, feeds)
            except Exception as e2:
                # neither engine of this image can execute the model (ORT lacks the kernel, onnx.reference stumbles e.g. over a
                # model-local function called Cast): nothing can be concluded about it
                raise EngineGap(f"ORT: {msg[:120]} | reference: {type(e2).__name__}: {str(e2)[:120]}")
        raise
    decl = {i.name for i in sess.get_inputs()}
    try:
        return sess.run(None, {k: v for k, v in feeds.items() if k in decl}), "ort"
    except Exception as e:
        # ORT loads the model but fails while running it. ONNX semantics are the specification's, not one runtime's: if the
        # reference evaluator executes the same (checker-clean) model, the failure is ORT's (seen: "Missing Input: v13" for the
        # output of a CastLike - a function op ORT inlines and renames - captured by an If branch)
        try:
            out = _run_reference(model, feeds)
        except Exception:
            raise e
        return out[0], "reference(ort_run_failed)"


def _compare(ref, got):
    if len(ref) != len(got):
        return f"output count {len(ref)} -> {len(got)}"
    for idx, (a, b) in enumerate(zip(ref, got)):
        a, b = np.asarray(a), np.asarray(b)
        if a.dtype != b.dtype:
            return f"output {idx} dtype {a.dtype} -> {b.dtype}"
        if a.shape != b.shape:
            return f"output {idx} shape {a.shape} -> {b.shape}"
        if a.dtype.kind in "fc":
            if not np.allclose(a, b, rtol=1e-6, atol=1e-6, equal_nan=True):
                return f"output {idx} values differ (max abs {np.nanmax(np.abs(a.astype(np.float64) - b.astype(np.float64))):.3g})"
        elif not np.array_equal(a, b):
            return f"output {idx} values differ"
    return None


def _only_signed_zero_artifact(raw, cur, feeds):
    """True when raw and cur agree on the same feeds with every negative zero replaced by a positive one (and the feeds had some)."""
    pos = {}
    had = False
    for k, v in feeds.items():
        a = np.asarray(v)
        if a.dtype.kind == "f" and a.size and np.any((a == 0) & np.signbit(a)):
            had = True
            a = np.where(a == 0, np.zeros_like(a), a)
        pos[k] = a
    if not had:
        return False
    try:
        r0, e0 = _run_any(raw, pos)
        r1, _ = _run_any(cur, pos, engine="reference" if e0.startswith("reference") else None)
    except Exception:
        return False
    return _compare(r0, r1) is None


def _declared_contradiction(model, outs):
    """A graph output's declared dtype/static dims must not contradict the runtime value."""
    from onnx import helper

    for vi, arr in zip(model.graph.output, outs):
        tt = vi.type.tensor_type
        arr = np.asarray(arr)
        if tt.elem_type and helper.tensor_dtype_to_np_dtype(tt.elem_type) != arr.dtype:
            return f"output {vi.name} declares elem_type {tt.elem_type} but runtime dtype is {arr.dtype}"
        if tt.HasField("shape"):
            dims = tt.shape.dim
            if len(dims) != arr.ndim:
                return f"output {vi.name} declares rank {len(dims)} but runtime rank is {arr.ndim}"
            for i, d in enumerate(dims):
                if d.HasField("dim_value") and d.dim_value != arr.shape[i]:
                    return f"output {vi.name} declares dim {i} = {d.dim_value} but runtime extent is {arr.shape[i]}"
    return None


def differential(model, feeds, function_bodies=True):
    """Returns dict(valid, fired[list], violation{pass,kind,detail}|None)."""
    import onnx_ir as ir
    from jax2onnx.converter import ir_optimizations as opt

    res = {"valid": False, "fired": [], "violation": None, "engine": None}
    try:
        onnx.checker.check_model(model, full_check=True)
        ref, eng = _run_any(model, feeds)
    except Exception as e:
        res["invalid_reason"] = f"{type(e).__name__}: {str(e)[:160]}"
        return res
    res["valid"] = True
    res["engine"] = eng
    raw_decl_bad = _declared_contradiction(model, ref)
    baselines = {eng: ref}

    def _baseline(engine):
        # values are compared between runs of the *same* engine: ORT's and onnx.reference's Sigmoid differ by a few 1e-6
        # relative, which a later Div amplifies past any fixed tolerance (Swish has no ORT kernel at opset 24/25)
        engine = "reference" if engine.startswith("reference") else engine
        if engine not in baselines:
            try:
                baselines[engine] = _run_any(model, feeds, engine=engine)[0]
            except Exception:
                baselines[engine] = ref
        return baselines[engine]
    raw_inputs = [i.name for i in model.graph.input]
    im = ir.from_proto(model)
    prev = model.SerializeToString()
    for p in _passes():
        stage = "top"
        try:
            opt._run_top_level_optimizer_pass(p, im)
            cur = ir.to_proto(im)
        except Exception as e:
            res["violation"] = {"pass": p.name, "kind": "pass_raised", "detail": f"{type(e).__name__}: {str(e)[:300]}"}
            return res
        b = cur.SerializeToString()
        if b == prev:
            continue
        prev = b
        if p.name not in NEUTRAL:
            res["fired"].append(p.name)
        try:
            onnx.checker.check_model(cur, full_check=True)
        except Exception as e:
            res["violation"] = {"pass": p.name, "kind": "invalid_after_pass", "detail": str(e)[:300]}
            return res
        new_inputs = [i.name for i in cur.graph.input]
        if not set(new_inputs) <= set(raw_inputs):
            res["violation"] = {"pass": p.name, "kind": "new_input", "detail": f"{new_inputs} vs {raw_inputs}"}
            return res
        if [n for n in raw_inputs if n in new_inputs] != new_inputs:
            res["violation"] = {"pass": p.name, "kind": "inputs_reordered", "detail": f"{new_inputs} vs {raw_inputs}"}
            return res
        try:
            got, eng_got = _run_any(cur, feeds)
        except EngineGap as e:
            res["inconclusive"] = f"{p.name}: {e}"
            return res
        except Exception as e:
            res["violation"] = {"pass": p.name, "kind": "unloadable_after_pass", "detail": f"{type(e).__name__}: {str(e)[:300]}"}
            return res
        if eng_got != "ort":
            res.setdefault("engine_notes", []).append(eng_got)
        diff = _compare(_baseline(eng_got), got)
        if diff and _only_signed_zero_artifact(model, cur, feeds):
            # ORT's reduction kernels do not agree among themselves on the sign of a zero result (a size-1 ReduceMean of -0.0 is
            # -0.0 on the copy path and +0.0 on the accumulate path); a later division turns that into -inf vs +inf. If both models
            # agree once the negative zeros of the feeds are made positive, the rewrite did not change what is computed.
            res.setdefault("engine_notes", []).append("signed_zero_kernel_artifact")
            diff = None
        if diff:
            res["violation"] = {"pass": p.name, "kind": "output_changed", "detail": diff}
            return res
        if raw_decl_bad is None:
            bad = _declared_contradiction(cur, got)
            if bad:
                res["violation"] = {"pass": p.name, "kind": "declared_output_contradicts_runtime", "detail": bad}
                return res
    if function_bodies and len(model.functions):
        # mirrors optimize_graph: after all top-level passes every pass runs over every function body
        from jax2onnx.converter.ir_optimizations import iter_ir_functions

        for p in _passes():
            try:
                for fn in iter_ir_functions(im.functions):
                    g = getattr(fn, "graph", None)
                    if g is not None:
                        opt._run_function_optimizer_pass(p, g)
                cur = ir.to_proto(im)
            except Exception as e:
                res["violation"] = {"pass": p.name, "stage": "function", "kind": "pass_raised", "detail": f"{type(e).__name__}: {str(e)[:300]}"}
                return res
            b = cur.SerializeToString()
            if b == prev:
                continue
            prev = b
            if p.name not in NEUTRAL:
                res["fired"].append("fn:" + p.name)
            try:
                onnx.checker.check_model(cur, full_check=True)
                got, eng_got = _run_any(cur, feeds)
            except EngineGap as e:
                res["inconclusive"] = f"fn:{p.name}: {e}"
                return res
            except Exception as e:
                res["violation"] = {"pass": p.name, "stage": "function", "kind": "invalid_after_pass", "detail": f"{type(e).__name__}: {str(e)[:300]}"}
                return res
            diff = _compare(_baseline(eng_got), got)
            if diff:
                res["violation"] = {"pass": p.name, "stage": "function", "kind": "output_changed", "detail": diff}
                return res
    res["final"] = prev
    return res


def spec_flags(spec):
    """Canonical description used in the violation signature."""
    outs = set(spec["outputs"])
    consumed = {}
    for nd in spec["nodes"]:
        for i in nd["i"]:
            consumed[i] = consumed.get(i, 0) + 1
    interior_out = any(o in consumed for o in outs)
    captured = any(nd.get("g") for nd in spec["nodes"])
    syms = {d for _, _, s in spec["inputs"] for d in s if isinstance(d, str)}
    side = "none"
    inits = {i[0]: i for i in spec["inits"]}
    inputs = {i[0] for i in spec["inputs"]}
    for nd in spec["nodes"]:
        if nd["op"] in ("Max", "Min", "Add", "Mul", "Sub", "Div") and len(nd["i"]) == 2:
            for i in nd["i"]:
                if i in inits and int(np.prod(inits[i][2] or [1])) > 1:
                    side = "tensor"
                elif i in inputs and i != spec["inputs"][0][0] and side == "none":
                    side = "input"
    def _custom(nodes):
        return any(nd.get("d") or any(_custom(sg["nodes"]) for sg in (nd.get("g") or {}).values()) for nd in nodes)

    return {"interior_output": interior_out, "captured": captured, "symbols": len(syms), "side": side,
            "multi_consumer": any(c > 1 for c in consumed.values()), "custom_domain": _custom(spec["nodes"])}


def check_spec(spec, acc=None):
    from vf import graphgen

    model = graphgen.build_model(spec)
    feeds = graphgen.make_feeds(spec)
    res = differential(model, feeds)
    if res["violation"]:
        v = res["violation"]
        ops = sorted({nd["op"] for nd in spec["nodes"]})
        fl = spec_flags(spec)
        sig = {"layer": "graph", "pass": v["pass"], "kind": v["kind"], "interior_output": fl["interior_output"],
               "captured": fl["captured"], "side": fl["side"], "symbolic": fl["symbols"] > 0}
        if fl["custom_domain"]:
            sig["custom_domain"] = True
        res["v"] = {"sig": sig, "case": {"kind": "spec", "spec": spec}, "detail": v["detail"] + f" | ops={ops}"}
    return res


def plan(tier, seed):
    n = 16 if tier == "quick" else 64
    ex = 280 if tier == "quick" else 1500
    shards = [{"kind": "graphs", "shard": i, "seed": seed, "examples": ex} for i in range(n)]
    nl = 8 if tier == "quick" else 32
    shards += [{"kind": "lowered", "shard": i, "seed": seed, "examples": 25 if tier == "quick" else 120} for i in range(nl)]
    return shards


def _work_graphs(sh, acc):
    import hypothesis
    from hypothesis import HealthCheck, given, settings, Phase
    from vf import graphgen

    @hypothesis.seed(derive_seed(sh["seed"], "c02graphs", sh["shard"]))
    @settings(max_examples=sh["examples"], deadline=None, database=None, suppress_health_check=list(HealthCheck),
              phases=[Phase.generate], report_multiple_bugs=False)
    @given(graphgen.graph_specs())
    def t(spec):
        if spec is None:
            acc.count("empty")
            return
        res = check_spec(spec)
        if not res["valid"]:
            acc.count("invalid_generated")
            acc.tally("invalid_reasons", res.get("invalid_reason", "?")[:80])
            acc.case()
            return
        fired = res["fired"]
        if res["violation"]:
            fired = fired  # the guilty pass fired as well
        key = digest(spec)
        acc.case(key=key, nontrivial=bool(fired), sample=None)
        for f in fired:
            acc.tally("pass_fired", f)
        for k in set(spec.get("kinds", [])):
            acc.tally("generated_kinds", k)
        fl = spec_flags(spec)
        for k, v in fl.items():
            if v and v != "none":
                acc.tally("flags", f"{k}={v}")
        acc.tally("engine", res["engine"])
        for n_ in res.get("engine_notes", []):
            acc.tally("engine_notes", n_)
        if res.get("inconclusive"):
            acc.inconclusive += 1
            acc.tally("inconclusive_reasons", res["inconclusive"][:100])
        if fired and len(acc.samples) < 3:
            acc.samples.append({"nodes": [[nd["op"], nd["i"], nd["o"]] for nd in spec["nodes"]][:14], "outputs": spec["outputs"],
                                "inputs": spec["inputs"], "fired": fired})
        if res["violation"]:
            acc.violation(**res["v"])

    t()


def work(sh):
    acc = Acc()
    if sh["kind"] == "graphs":
        _work_graphs(sh, acc)
    else:
        from vf.props import c02_lowered

        c02_lowered.work(sh, acc)
    return acc.to_dict()


def replay(case):
    if case.get("kind") == "spec":
        res = check_spec(case["spec"])
        return [res["v"]] if res.get("v") else []
    from vf.props import c02_lowered

    return c02_lowered.replay(case)


def shrink(v):
    if v["case"].get("kind") != "spec":
        return v
    from vf import graphgen

    target = (v["sig"]["pass"], v["sig"]["kind"])

    def still(spec):
        try:
            r = check_spec(spec)
        except Exception:
            return False
        return bool(r.get("v")) and (r["v"]["sig"]["pass"], r["v"]["sig"]["kind"]) == target

    small = graphgen.shrink_spec(v["case"]["spec"], still)
    r = check_spec(small)
    if r.get("v"):
        out = r["v"]
        out["sig"] = v["sig"]  # keep the bucket the violation was reported under
        return out
    return v
