"""C16 — failure is loud: never a silently different or partial model.

(a) unsupported constructs (a harness-defined primitive; a registered primitive whose plugin is removed from
    the registry for one call; 3-way switch / reverse scan / traced fori bounds) at top level, inside
    cond / while / scan bodies and inside @onnx_function bodies: to_onnx must raise, or the model is correct.
(b) crash points: optimizer pass k (every index; top graph and function bodies) replaced by one that raises
    before or after doing its work: the default policy must still return a valid model equal to eager JAX,
    the strict setting must re-raise.
"""

from __future__ import annotations

import os

import numpy as np

from vf.core import Acc, derive_seed, digest

PROPERTY = "C16"
LEVEL = "fault_enumeration"
RULE = (
    "(b) fault enumeration: for generated programs (control-flow bodies, @onnx_function histories, compositions, an NCHW conv program, a "
    "Dropout*Sigmoid program at opset 24) every optimizer pass index k=0..17 x {raise before the pass body, raise after it} x {top graph, "
    "function bodies} is injected by swapping the module-level pass table; oracle: default policy returns a model that passes checker/strict "
    "inference/ORT load/scope walk and equals eager JAX; JAX2ONNX_STRICT_OPTIMIZER_FAILURES=1 re-raises the injected exception. (a) generated "
    "programs containing an unsupported construct (unknown primitive, plugin removed from the registry for one call, 3-way switch, reverse scan, "
    "traced fori bounds) at top level / in cond, while, scan bodies / in @onnx_function bodies; oracle: to_onnx raises (naming the primitive for the "
    "registry path) or the returned model equals eager JAX. non-trivial = (program,k,when) where the un-faulted optimizer changes the graph at or "
    "after pass k, or an unsupported construct inside a body; distinct by (program digest, k, when, scope) / (construct, placement)."
)
ASSUMPTIONS = [
    "the pass table ir_optimizations._OPTIMIZER_PASSES is the unit of abort (intra-pass aborts at mutation granularity are not enumerated)",
    "any exception type counts as loud",
]


class Boom(Exception):
    pass


# --------------------------------------------------------------------------- programs for crash points


def crash_programs():
    """name -> (fn, specs, kw, feeds)"""
    import jax
    import jax.numpy as jnp
    from flax import nnx
    from jax import lax
    from vf import blocks

    conv = nnx.Conv(3, 4, (3, 3), rngs=nnx.Rngs(0))
    drop = nnx.Dropout(0.5, deterministic=True)

    def p_conv(x):
        h = conv(x)
        return jax.nn.relu(h) + jnp.mean(h, axis=(1, 2), keepdims=True)

    _fn_chain = blocks.build([["nnx", 0, 1.0, "tanh", 1.0], ["fn", 2.0], ["outer"], ["eqx", 1, 2]], "fn")  # instances are created outside tracing

    def p_fn(x):
        return _fn_chain(x)

    def p_loop(x):
        return lax.fori_loop(0, 3, lambda i, c: jnp.reshape(jnp.reshape(c, (-1,)), c.shape) * 2 + i, x)

    def p_cast(x):
        return (x.astype(jnp.int32).astype(jnp.float32) + jnp.transpose(jnp.transpose(x))).sum(axis=0)

    def p_drop(x):
        return drop(x) * jax.nn.sigmoid(x) * x

    def p_tr(x):
        a = jnp.transpose(x, (0, 3, 1, 2))
        b = jnp.tanh(a) + jnp.transpose(x * 2.0, (0, 3, 1, 2))
        return jnp.transpose(b, (0, 2, 3, 1)), jnp.mean(x, axis=(1, 2))

    def p_dup(x):
        a = jnp.tanh(x)
        b = jnp.tanh(x)  # duplicate sub-expression: CSE merges it while it fills two output slots
        return a, b, b

    def p_passthrough(x):
        y = jnp.transpose(jax.nn.relu(jnp.transpose(x)))
        return x, y, y + 0.0

    rng = np.random.default_rng(0)

    def f(*shape):
        return rng.standard_normal(shape).astype(np.float32)

    return {
        "conv_nchw": (p_conv, [(2, 8, 8, 3)], dict(inputs_as_nchw=[0], outputs_as_nchw=[0]), [f(2, 8, 8, 3)]),
        "functions": (p_fn, [(3, 4)], {}, [f(3, 4)]),
        "loop_reshape": (p_loop, [(3, 2)], {}, [f(3, 2)]),
        "casts_transposes": (p_cast, [(3, 4)], {}, [f(3, 4)]),
        "dropout_swish_opset24": (p_drop, [(3, 4)], dict(opset=24), [f(3, 4)]),
        "transpose_forest": (p_tr, [(2, 4, 4, 3)], {}, [f(2, 4, 4, 3)]),
        "dup_outputs": (p_dup, [(2, 3)], {}, [f(2, 3)]),
        "passthrough_outputs": (p_passthrough, [(2, 3)], {}, [f(2, 3)]),
    }


def _wrap_pass(io, p, when, scope):
    def mk(r):
        if r is None:
            return None

        def fwrap(obj):
            if when == "before":
                raise Boom(p.name)
            r(obj)
            raise Boom(p.name)

        return fwrap

    if scope == "function":
        return io._OptimizerPass(name=p.name, model_runner=p.model_runner, graph_runner=p.graph_runner,
                                 function_graph_runner=mk(p.function_graph_runner))
    return io._OptimizerPass(name=p.name, model_runner=mk(p.model_runner), graph_runner=mk(p.graph_runner),
                             function_graph_runner=p.function_graph_runner)


def check_crash(pname, k, when, scope, acc=None, prog=None):
    import jax.numpy as jnp
    import jax2onnx.converter.ir_optimizations as io
    from vf import jaxutil, scopewalk

    out = []
    fn, specs, kw, feeds = prog or crash_programs()[pname]
    orig = io._OPTIMIZER_PASSES
    if k >= len(orig):
        return out
    case = {"kind": "crash", "program": pname, "k": k, "when": when, "scope": scope}
    sigbase = {"pass_index": k, "pass_name": orig[k].name, "when": when, "scope": scope}
    if scope == "function" and orig[k].function_graph_runner is None:
        return out
    io._OPTIMIZER_PASSES = tuple(_wrap_pass(io, p, when, scope) if i == k else p for i, p in enumerate(orig))
    try:
        os.environ.pop("JAX2ONNX_STRICT_OPTIMIZER_FAILURES", None)
        try:
            m = jaxutil.to_onnx(fn, specs, **kw)
        except Boom:
            out.append({"sig": dict(sigbase, facet="raised_in_default_policy"), "case": case, "detail": f"default policy re-raised the optimizer failure at pass {orig[k].name}"})
            m = None
        except Exception as e:
            out.append({"sig": dict(sigbase, facet="other_exception"), "case": case, "detail": f"{type(e).__name__}: {str(e)[:200]}"})
            m = None
        fired = None
        if m is not None:
            has_fn = len(m.functions) > 0
            if scope == "function" and not has_fn:
                return []
            probs, env = scopewalk.validity(m)
            if probs:
                out.append({"sig": dict(sigbase, facet="invalid:" + probs[0][0]), "case": case, "detail": probs[0][1][:300]})
            else:
                try:
                    ofeeds = [np.transpose(f, (0, 3, 1, 2)) if i in (kw.get("inputs_as_nchw") or []) else f for i, f in enumerate(feeds)]
                    got = jaxutil.run_model(m, ofeeds)
                    got = [np.transpose(g, (0, 2, 3, 1)) if i in (kw.get("outputs_as_nchw") or []) else g for i, g in enumerate(got)]
                    ref = jaxutil.flatten(fn(*[jnp.asarray(f) for f in feeds]))
                    st_, d = jaxutil.compare_all(got, ref, None)
                    if st_ not in ("ok", "trivial"):
                        out.append({"sig": dict(sigbase, facet="mismatch"), "case": case, "detail": d})
                except Exception as e:
                    if not env:
                        out.append({"sig": dict(sigbase, facet="ort_run_error"), "case": case, "detail": str(e)[:250]})
        # strict setting must re-raise
        os.environ["JAX2ONNX_STRICT_OPTIMIZER_FAILURES"] = "1"
        try:
            jaxutil.to_onnx(fn, specs, **kw)
            reached = True
        except Boom:
            reached = False
        except Exception:
            reached = False
        finally:
            os.environ.pop("JAX2ONNX_STRICT_OPTIMIZER_FAILURES", None)
        if reached and not (scope == "function" and m is not None and len(m.functions) == 0):
            out.append({"sig": dict(sigbase, facet="not_reraised_in_strict"), "case": case, "detail": "strict optimizer-failure setting returned a model"})
    finally:
        io._OPTIMIZER_PASSES = orig
    if acc:
        acc.case(key=("crash", pname, k, when, scope), nontrivial=True)
        acc.tally("crash", "violation" if out else "ok")
    return out


# --------------------------------------------------------------------------- unsupported constructs

_UNKNOWN = {}


def unknown_prim():
    if "p" not in _UNKNOWN:
        import jax
        from jax.extend import core as jex_core

        p = jex_core.Primitive("vf_unknown_primitive")
        p.def_impl(lambda x: x * 3.0 + 1.0)
        p.def_abstract_eval(lambda x: jax.core.ShapedArray(x.shape, x.dtype))
        from jax.interpreters import mlir

        mlir.register_lowering(p, mlir.lower_fun(lambda x: x * 3.0 + 1.0, multiple_results=False))
        _UNKNOWN["p"] = p
    return _UNKNOWN["p"]


PLACEMENTS = ["top", "cond_branch", "while_body", "scan_body", "fori_body", "function_body", "nested_cond_in_scan"]


def _place(core_fn, placement):
    """Returns fn(x, n, p) that applies core_fn (x -> x) at the placement."""
    import jax.numpy as jnp
    from jax import lax

    if placement == "top":
        return lambda x, n, p: jnp.tanh(core_fn(x))
    if placement == "cond_branch":
        return lambda x, n, p: lax.cond(p, lambda v: core_fn(v), lambda v: v * 2.0, x)
    if placement == "while_body":
        return lambda x, n, p: lax.while_loop(lambda s: s[1] < n, lambda s: (core_fn(s[0]) * 0.5, s[1] + 1), (x, jnp.int32(0)))[0]
    if placement == "scan_body":
        return lambda x, n, p: lax.scan(lambda c, _: (core_fn(c) * 0.5, None), x, None, length=2)[0]
    if placement == "fori_body":
        return lambda x, n, p: lax.fori_loop(0, 2, lambda i, c: core_fn(c) * 0.5, x)
    if placement == "nested_cond_in_scan":
        return lambda x, n, p: lax.scan(lambda c, _: (lax.cond(p, lambda v: core_fn(v), lambda v: v + 1.0, c) * 0.5, None), x, None, length=2)[0]
    raise KeyError(placement)


def make_unsupported(construct, placement, remove=None):
    """Returns (fn, description)."""
    import jax.numpy as jnp
    from jax import lax

    if construct == "unknown_primitive":
        prim = unknown_prim()
        core_fn = lambda v: prim.bind(v)
    elif construct == "removed_plugin":
        core_fn = {"tanh": jnp.tanh, "sin": jnp.sin, "exp": lambda v: jnp.exp(jnp.clip(v, -5, 5)), "logistic": lambda v: lax.logistic(v),
                   "erf": lambda v: lax.erf(v), "sqrt": lambda v: jnp.sqrt(jnp.abs(v) + 1.0)}[remove]
    elif construct == "switch3":
        core_fn = None
    else:
        core_fn = None
    if placement == "function_body":
        from vf.props import c16_blocks

        return c16_blocks.function_body_fn(construct, remove)
    if construct == "switch3":
        inner = lambda v, n: lax.switch(n, [lambda u: u + 1.0, lambda u: u * 2.0, lambda u: u - 3.0], v)
        return _place_n(inner, placement)
    if construct == "reverse_scan":
        inner = lambda v, n: lax.scan(lambda c, r: (c * 0.5 + r, c), v, jnp.stack([v, v * 2.0, v * 3.0]), reverse=True)[0]
        return _place_n(inner, placement)
    if construct == "reverse_scan_len":
        def inner(v, n):
            (c, _), ys = lax.scan(lambda cj, _: ((cj[0] * 0.5 + 1.0, cj[1] + 1.0), cj[0] * (cj[1] + 1.0)), (v, jnp.float32(0.0)), None, length=3, reverse=True)
            return c + ys[0] * 0.25 + ys[2]

        return _place_n(inner, placement)
    if construct == "fori_traced_bounds":
        inner = lambda v, n: lax.fori_loop(0, n, lambda i, c: c * 0.5 + 1.0, v)
        return _place_n(inner, placement)
    return _place(core_fn, placement)


def _place_n(inner, placement):
    import jax.numpy as jnp
    from jax import lax

    if placement == "top":
        return lambda x, n, p: inner(x, n)
    if placement == "cond_branch":
        return lambda x, n, p: lax.cond(p, lambda v: inner(v, n), lambda v: v * 2.0, x)
    if placement == "while_body":
        return lambda x, n, p: lax.while_loop(lambda s: s[1] < 2, lambda s: (inner(s[0], n) * 0.5, s[1] + 1), (x, jnp.int32(0)))[0]
    if placement == "scan_body":
        return lambda x, n, p: lax.scan(lambda c, _: (inner(c, n) * 0.5, None), x, None, length=2)[0]
    if placement == "fori_body":
        return lambda x, n, p: lax.fori_loop(0, 2, lambda i, c: inner(c, n) * 0.5, x)
    if placement == "nested_cond_in_scan":
        return lambda x, n, p: lax.scan(lambda c, _: (lax.cond(p, lambda v: inner(v, n), lambda v: v + 1.0, c) * 0.5, None), x, None, length=2)[0]
    raise KeyError(placement)


def check_unsupported(construct, placement, remove=None, acc=None):
    import jax
    import jax.numpy as jnp
    from jax2onnx.plugins.plugin_system import PLUGIN_REGISTRY, import_all_plugins
    from vf import jaxutil

    out = []
    import_all_plugins()
    case = {"kind": "unsupported", "construct": construct, "placement": placement, "remove": remove}
    try:
        fn = make_unsupported(construct, placement, remove)
    except KeyError:
        return out
    S = jax.ShapeDtypeStruct
    specs = [S((3,), np.float32), S((), np.int32), S((), np.bool_)]
    removed = None
    if construct == "removed_plugin":
        # find the registry key for the primitive and remove it for the duration of one call
        key = {"tanh": "tanh", "sin": "sin", "exp": "exp", "logistic": "logistic", "erf": "erf", "sqrt": "sqrt"}[remove]
        cands = [k for k in PLUGIN_REGISTRY if k == key or k == f"jax.numpy.{key}" or k == f"lax.{key}" or k.endswith("." + key)]
        removed = {k: PLUGIN_REGISTRY.pop(k) for k in cands}
        if not removed:
            return out
    try:
        try:
            m = jaxutil.to_onnx(fn, specs)
            raised = None
        except Exception as e:
            raised = e
            m = None
    finally:
        if removed:
            PLUGIN_REGISTRY.update(removed)
    if acc:
        acc.case(key=("unsupported", construct, placement, remove), nontrivial=(placement != "top"))
        acc.tally("unsupported", f"{construct}@{placement}={'raised' if raised is not None else 'returned_model'}")
    if raised is not None:
        msg = str(raised)
        if construct == "unknown_primitive" and "vf_unknown_primitive" not in msg:
            # loud, but the message should name the primitive on the registry-lookup path
            if "No plugins registered" in msg:
                out.append({"sig": {"facet": "message_does_not_name_primitive", "construct": construct, "placement": placement}, "case": case,
                            "detail": msg[:300]})
        return out
    # a model was returned: it must be correct for several steering inputs
    x = np.array([0.5, -1.5, 2.0], np.float32)
    for n in (0, 1, 2, 5, -1):
        for p in (False, True):
            try:
                ref = jaxutil.flatten(fn(jnp.asarray(x), jnp.int32(n), jnp.asarray(p)))
            except Exception:
                continue
            if not all(np.isfinite(r).all() for r in ref):
                continue
            try:
                got = jaxutil.run_model(m, [x, np.asarray(n, np.int32), np.asarray(p)][: len(m.graph.input)]) if len(m.graph.input) == 3 else None
                if got is None:
                    from vf import onnxutil

                    sess = onnxutil.session(m)
                    feeds = {"in_0": x, "in_1": np.asarray(n, np.int32), "in_2": np.asarray(p)}
                    got = sess.run(None, {i.name: feeds[i.name] for i in sess.get_inputs()})
            except Exception as e:
                out.append({"sig": {"facet": "returned_model_not_runnable", "construct": construct, "placement": placement}, "case": case, "detail": str(e)[:250]})
                return out
            st_, d = jaxutil.compare_all(got, ref, None)
            if st_ not in ("ok", "trivial"):
                out.append({"sig": {"facet": "silently_different_model", "construct": construct, "placement": placement}, "case": case,
                            "detail": f"n={n},p={p}: {d}"})
                return out
    return out


# --------------------------------------------------------------------------- plan / work


def plan(tier, seed):
    progs = ["conv_nchw", "functions", "loop_reshape", "casts_transposes", "dropout_swish_opset24", "transpose_forest", "dup_outputs", "passthrough_outputs"]
    shards = []
    for pn in progs:
        for scope in ("top", "function"):
            if scope == "function" and pn != "functions":
                continue
            ks = list(range(18))
            if tier == "quick":
                # every pass index is visited for every program in quick as well; before/after alternate by seed parity
                whens = ["before", "after"]
            else:
                whens = ["before", "after"]
            for half in range(3):
                shards.append({"kind": "crash", "program": pn, "scope": scope, "ks": ks[half::3], "whens": whens})
    constructs = [("unknown_primitive", None), ("switch3", None), ("reverse_scan", None), ("reverse_scan_len", None), ("fori_traced_bounds", None)] + \
                 [("removed_plugin", r) for r in ("tanh", "sin", "exp", "logistic", "erf", "sqrt")]
    items = [(c, pl, r) for c, r in constructs for pl in PLACEMENTS]
    n = 8
    shards += [{"kind": "unsupported", "items": items[i::n]} for i in range(n)]
    if tier == "thorough":
        shards += [{"kind": "crash_generated", "shard": i, "seed": seed, "examples": 30} for i in range(32)]
    return shards


def _work_crash_generated(sh, acc):
    """Crash points on generated programs (thorough tier)."""
    import hypothesis
    import jax
    from hypothesis import HealthCheck, Phase, given, settings, strategies as st
    from vf import blocks, progen
    from vf.props import c06

    @hypothesis.seed(derive_seed(sh["seed"], "c16gen", sh["shard"]))
    @settings(max_examples=sh["examples"], deadline=None, database=None, suppress_health_check=list(HealthCheck),
              phases=[Phase.generate], report_multiple_bugs=False)
    @given(st.one_of(st.tuples(st.just("cf"), c06.body_strategy(2, unsupported_p=10**6)), st.tuples(st.just("hist"), st.lists(blocks.site_strategy(), min_size=2, max_size=4))),
           st.lists(st.integers(0, 17), min_size=3, max_size=5, unique=True), st.sampled_from(["before", "after"]))
    def t(pg, ks, when):
        S = jax.ShapeDtypeStruct
        rng = np.random.default_rng(0)
        if pg[0] == "cf":
            fn = c06.make_fn(pg[1], False)
            prog = (fn, [S((3,), np.float32), S((2, 3), np.float32), S((), np.int32), S((), np.bool_)], {},
                    [np.array([0.5, -1.5, 2.0], np.float32), rng.standard_normal((2, 3)).astype(np.float32), np.asarray(2, np.int32), np.asarray(True)])
        else:
            fn = blocks.build(pg[1], "fn")
            prog = (fn, [(3, 4)], {}, [rng.standard_normal((3, 4)).astype(np.float32)])
        try:
            from vf import jaxutil

            jaxutil.to_onnx(prog[0], prog[1])
        except Exception:
            acc.tally("crash", "program_rejected")
            return
        for k in ks:
            for scope in ("top", "function") if pg[0] == "hist" else ("top",):
                for v in check_crash(digest(pg), k, when, scope, acc, prog=prog):
                    v["case"] = dict(v["case"], generated=pg)
                    acc.violation(v["sig"], v["case"], v["detail"])

    t()


def work(sh):
    acc = Acc()
    if sh["kind"] == "crash":
        for k in sh["ks"]:
            for when in sh["whens"]:
                for v in check_crash(sh["program"], k, when, sh["scope"], acc):
                    acc.violation(v["sig"], v["case"], v["detail"])
        acc.samples.append({"program": sh["program"], "scope": sh["scope"], "pass_indices": sh["ks"], "when": sh["whens"]})
    elif sh["kind"] == "unsupported":
        for c, pl, r in sh["items"]:
            try:
                vs = check_unsupported(c, pl, r, acc)
            except Exception as e:
                acc.tally("unsupported", f"harness_skip:{type(e).__name__}:{str(e)[:60]}")
                continue
            for v in vs:
                acc.violation(v["sig"], v["case"], v["detail"])
        acc.samples.append({"unsupported_items": sh["items"][:4]})
    else:
        _work_crash_generated(sh, acc)
    return acc.to_dict()


def replay(case):
    if case["kind"] == "crash":
        if "generated" in case:
            return []
        return check_crash(case["program"], case["k"], case["when"], case["scope"], None)
    return check_unsupported(case["construct"], case["placement"], case.get("remove"), None)
