#!/usr/bin/env python3
"""Print (and optionally shrink) C02 replay specs: tools/show_replay.py [--shrink] FILE..."""
import json, sys, os
sys.path.insert(0, os.path.dirname(os.path.dirname(os.path.abspath(__file__)))); sys.path.insert(0, "/repo")
shrink = "--shrink" in sys.argv
for f in [a for a in sys.argv[1:] if not a.startswith("--")]:
    rec = json.load(open(f))
    v = {"sig": rec["sig"], "case": rec["case"], "detail": rec.get("detail", "")}
    if shrink:
        import warnings; warnings.filterwarnings("ignore")
        from vf.props import c02
        v = c02.shrink(v)
    spec = v["case"]["spec"]
    print("==", f, v["sig"]["pass"], v["sig"]["kind"], "|", v["detail"][:200])
    print("  inputs", spec["inputs"], "bind", spec["bind"], "opset", spec["opset"])
    for i in spec["inits"]:
        print("  init", i[0], i[1], i[2], i[3][:6])
    for nd in spec["nodes"]:
        print("  ", nd["op"], nd["i"], "->", nd["o"], nd.get("a", ""), "G" if nd.get("g") else "", [spec["vi"][o] for o in nd["o"]])
    print("  outputs", spec["outputs"])
