import sys, os, time, json, collections, warnings
warnings.filterwarnings("ignore")
sys.path.insert(0,'/tmp/scratch_repo')   # tree with candidate fixes (jit etc.)
import numpy as np, jax, jax.numpy as jnp
import logging; logging.disable(logging.CRITICAL)
from jax2onnx import to_onnx
from jax2onnx.plugins.plugin_system import PLUGIN_REGISTRY, EXAMPLE_REGISTRY, import_all_plugins
import onnxruntime as ort
ort.set_default_logger_severity(4)
import_all_plugins()
cases=[]
for name, plugin in sorted(PLUGIN_REGISTRY.items()):
    md = getattr(plugin,'metadata',None)
    if not md: continue
    for i,tc in enumerate(md.get('testcases',[])): cases.append((f"{name}#{tc['testcase']}#{i}", md.get('context'), md.get('component'), tc))
for k,md in sorted(EXAMPLE_REGISTRY.items()):
    for i,tc in enumerate(md.get('testcases',[])): cases.append((f"ex:{k}#{tc['testcase']}#{i}", md.get('context'), md.get('component'), tc))
cases.sort(key=lambda c:c[0])
shard=int(sys.argv[1]); nsh=int(sys.argv[2])
POOL=np.array([0.0,-0.0,0.5,-0.5,1.5,-1.5,2.5,-2.5,3.5,-3.5,1.0,-1.0,2.0,-2.0,3.0,-7.25,1e-3,-1e-3,0.49999997,-0.49999997,40.0,-40.0,88.0,-88.0,1e4,-1e4,1e-20,6.0,-6.0])
def draw(rng, shape, dt, mode):
    shape=tuple(3 if isinstance(d,str) else d for d in shape); dt=np.dtype(dt)
    if dt.kind=='f':
        if mode==0: a=rng.standard_normal(shape)*2
        elif mode==1: a=rng.choice(POOL[:20], size=shape)
        else: a=rng.choice(POOL, size=shape)
        return np.asarray(a).astype(dt)
    if dt.kind in 'iu':
        lo,hi = (0,9) if dt.kind=='u' else ((-4,9) if mode else (0,5))
        return np.asarray(rng.integers(lo,hi,shape)).astype(dt)
    if dt==np.bool_: return np.asarray(rng.random(shape)>0.5)
    if dt.kind=='c': return np.asarray(rng.standard_normal(shape)+1j*rng.standard_normal(shape)).astype(dt)
    return np.asarray(rng.standard_normal(shape)).astype(dt)
SC=[0.5,2.0,0.01,100.0]
def ort_feed(a, meta):
    a=np.asarray(a)
    if a.dtype.kind=='c':  # complex packed as trailing pair
        return np.stack([a.real,a.imag],axis=-1).astype(np.float64 if 'double' in meta.type else np.float32)
    return a
def leaves(x): return [np.asarray(l) for l in jax.tree_util.tree_leaves(x)]
def compare(got, r32, r64):
    """returns None or dict describing violation"""
    if len(got)!=len(r32): return {"kind":"count","got":len(got),"exp":len(r32)}
    ncmp=0
    for oi,(g,e) in enumerate(zip(got,r32)):
        e64 = r64[oi] if r64 is not None and oi<len(r64) else None
        if e.dtype.kind=='c' and g.dtype.kind!='c' and g.shape==e.shape+(2,): g=g[...,0]+1j*g[...,1]
        if g.shape!=e.shape: return {"kind":"shape","o":oi,"got":list(g.shape),"exp":list(e.shape)}
        if e.dtype.kind in 'fc':
            ref = e64.astype(np.complex128 if e.dtype.kind=='c' else np.float64) if (e64 is not None and e64.shape==e.shape) else e.astype(np.complex128 if e.dtype.kind=='c' else np.float64)
            e_ = e.astype(ref.dtype); g_=g.astype(ref.dtype)
            fin=np.isfinite(ref)&np.isfinite(e_)
            if not fin.any(): continue
            scale=max(1.0,float(np.abs(ref[fin]).max()))
            own=np.abs(e_-ref); own=np.where(np.isfinite(own),own,np.inf)
            rt,at=(2e-4,2e-5) if e64 is not None else (1e-3,1e-4)
            tol=at*scale+rt*np.abs(ref)+16*own
            with np.errstate(all='ignore'): err=np.abs(g_-ref)
            bad=fin&~(err<=tol)
            ncmp+=int(fin.sum())
            if bad.any():
                j=tuple(np.argwhere(bad)[0])
                return {"kind":"value","o":oi,"idx":list(map(int,j)),"got":str(g_[j]),"ref64":str(ref[j]),"ref32":str(e_[j]),"nbad":int(bad.sum()),"n":int(fin.sum())}
        else:
            ncmp+=e.size
            if g.dtype.kind in 'fc': return {"kind":"dtypeclass","o":oi,"got":str(g.dtype),"exp":str(e.dtype)}
            if not np.array_equal(g.astype(np.int64) if g.dtype.kind in 'iub' else g, e.astype(np.int64) if e.dtype.kind in 'iub' else e):
                bad=np.argwhere(np.asarray(g).astype(np.int64)!=np.asarray(e).astype(np.int64)); j=tuple(bad[0]) if len(bad) else ()
                return {"kind":"intvalue","o":oi,"got":str(np.asarray(g)[j]),"exp":str(np.asarray(e)[j]),"nbad":int(len(bad)),"n":int(e.size)}
    return {"kind":"ok","ncmp":ncmp}
res=[]
for idx,(cid,ctx,comp,tc) in enumerate(cases):
    if idx % nsh != shard: continue
    rec={"id":cid,"ctx":ctx,"comp":comp,"viol":[],"n_ok":0,"n_trivial":0}
    if tc.get("skip_numeric_validation"): rec["status"]="skipnum"; res.append(rec); continue
    if tc.get("run_only_f64_variant") or tc.get("enable_double_precision"): rec["status"]="f64only"; res.append(rec); continue
    t0=time.time()
    try:
        fn = tc.get("callable"); fac=None
        if getattr(fn,"__jax2onnx_factory__",False): fac=fn; fn = fac.with_dtype(jnp.float32).instantiate()
        shapes=tc.get("input_shapes"); dts=tc.get("input_dtypes"); vals=tc.get("input_values")
        if shapes is not None:
            dts2 = list(dts) if dts else [np.float32]*len(shapes)
            specs=[jax.ShapeDtypeStruct(tuple(s),d) for s,d in zip(shapes,dts2)] if dts else [tuple(s) for s in shapes]
            gen=lambda rng,mode:[draw(rng,s_,d_,mode) for s_,d_ in zip(shapes,dts2)]
            modes=[0,1,2]
        elif vals is not None:
            base=[np.asarray(v) for v in vals]; base=[f.astype(np.float32) if f.dtype==np.float64 else (f.astype(np.int32) if f.dtype==np.int64 else f) for f in base]
            specs=[jax.ShapeDtypeStruct(f.shape,f.dtype) for f in base]
            gen=lambda rng,mode:[(b*np.asarray(SC[mode],b.dtype) if b.dtype.kind=='f' else b) for b in base]
            modes=[0,1,2]
        else: specs=[]; gen=lambda rng,mode:[]; modes=[0]
        kw={}
        for k in ("inputs_as_nchw","outputs_as_nchw","normalization_mode","input_params"):
            if tc.get(k) is not None: kw[k]=tc[k]
        if tc.get("opset_version"): kw["opset"]=tc["opset_version"]
        m=to_onnx(fn, specs, **kw)
        if m.ByteSize()>80_000_000: rec["status"]="big"; res.append(rec); continue
        so=ort.SessionOptions(); so.graph_optimization_level=ort.GraphOptimizationLevel.ORT_DISABLE_ALL; so.intra_op_num_threads=1
        s=ort.InferenceSession(m.SerializeToString(), so, providers=["CPUExecutionProvider"])
    except Exception as e:
        rec["status"]="setup_fail"; rec["err"]=f"{type(e).__name__}: {str(e)[:120]}"; res.append(rec); continue
    rec["status"]="ok"
    params = tc.get("input_params") or {}
    # f64 reference callable
    fn64=None
    try:
        jax.config.update("jax_enable_x64", True)
        fn64 = fac.with_dtype(jnp.float64).instantiate() if fac is not None else fn
    except Exception: fn64=None
    finally: jax.config.update("jax_enable_x64", False)
    for mode in modes:
        rng=np.random.default_rng(1000*mode+7)
        feeds=gen(rng,mode)
        ofeeds=list(feeds)
        for i in (tc.get("inputs_as_nchw") or []): ofeeds[i]=np.transpose(ofeeds[i],(0,3,1,2))
        try:
            fd={}; it=iter(ofeeds)
            for i in s.get_inputs():
                fd[i.name]=np.asarray(params[i.name]) if i.name in params else ort_feed(next(it), i)
            got=s.run(None, fd)
        except Exception as e:
            rec["viol"].append({"mode":mode,"kind":"ort_run_error","err":str(e)[:160]}); continue
        try:
            r32=leaves(fn(*[jnp.asarray(f) for f in feeds], **params))
        except Exception as e:
            rec["viol"].append({"mode":mode,"kind":"jax_error","err":str(e)[:120]}); continue
        r64=None
        if fn64 is not None and not tc.get("disable_float64_test") and not tc.get("run_only_f32_variant"):
            try:
                jax.config.update("jax_enable_x64", True)
                f64=[jnp.asarray(f.astype(np.float64) if f.dtype.kind=='f' else (f.astype(np.complex128) if f.dtype.kind=='c' else f)) for f in feeds]
                r64=leaves(fn64(*f64, **params))
                if len(r64)!=len(r32): r64=None
            except Exception: r64=None
            finally: jax.config.update("jax_enable_x64", False)
        got2=[]
        for oi,g in enumerate(got):
            if oi in (tc.get("outputs_as_nchw") or []): g=np.transpose(g,(0,2,3,1))
            got2.append(g)
        c=compare(got2,r32,r64)
        if c["kind"]=="ok":
            if c["ncmp"]>0: rec["n_ok"]+=1
            else: rec["n_trivial"]+=1
        else:
            c["mode"]=mode; c["has64"]=r64 is not None; c["inp"]=[str(np.asarray(f).flatten()[:5]) for f in feeds][:3]; rec["viol"].append(c)
    rec["s"]=round(time.time()-t0,2)
    res.append(rec)
json.dump(res, open(f"/tmp/scratch/c01_{shard}.json","w"))
print(shard, collections.Counter(r["status"] for r in res), sum(1 for r in res if r["viol"]))
