#!/bin/bash
# usage: tools/mutate.sh <patch-or-sed-script.py> <Cxx> [tier]  -- applies a python edit script to /repo, runs the check, reverts.
# The edit script is python code executed with cwd=/repo. /repo must be clean before.
set -u
if [ -n "$(git -C /repo status --porcelain)" ]; then echo "/repo not clean"; exit 3; fi
( cd /repo && /venv/bin/python "$1" ) || { git -C /repo checkout -- .; echo "edit failed"; exit 3; }
git -C /repo diff --stat | tail -1
shift
for p in "$@"; do
  VERIF_NO_SHRINK=${VERIF_NO_SHRINK:-1} /verif/check "$p" 2>&1 | grep -E "VIOLATION|KNOWN|tier=|HARNESS|Error" | head -8
  echo "exit=$? ($p)"
done
git -C /repo checkout -- .
