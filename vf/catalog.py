"""Enumerates every registered plugin/example metadata testcase from the working tree.

Canonical identifiers are `<registry key>#<testcase>#<ordinal>` and the catalog is sorted by them
(`context/component/testcase` is not unique and discovery order follows the filesystem).
"""

from __future__ import annotations

import numpy as np

_CASES = None

POOL = np.array([0.0, -0.0, 0.5, -0.5, 1.5, -1.5, 2.5, -2.5, 3.5, -3.5, 1.0, -1.0, 2.0, -2.0, 3.0, -7.25, 1e-3, -1e-3, 0.49999997,
                 -0.49999997, 40.0, -40.0, 88.0, -88.0, 1e4, -1e4, 1e-20, 6.0, -6.0])
SCALES = [1.0, 0.5, 2.0, 0.01, 100.0]


def cases():
    global _CASES
    if _CASES is not None:
        return _CASES
    from jax2onnx.plugins.plugin_system import EXAMPLE_REGISTRY, PLUGIN_REGISTRY, import_all_plugins

    import_all_plugins()
    out = []
    for name, plugin in sorted(PLUGIN_REGISTRY.items(), key=lambda kv: str(kv[0])):
        md = getattr(plugin, "metadata", None)
        if not md:
            continue
        for i, tc in enumerate(md.get("testcases", [])):
            out.append({"id": f"{name}#{tc.get('testcase')}#{i}", "context": md.get("context"), "component": md.get("component"), "tc": tc})
    for k, md in sorted(EXAMPLE_REGISTRY.items(), key=lambda kv: str(kv[0])):
        for i, tc in enumerate(md.get("testcases", [])):
            out.append({"id": f"ex:{k}#{tc.get('testcase')}#{i}", "context": md.get("context"), "component": md.get("component"), "tc": tc})
    out.sort(key=lambda c: c["id"])
    _CASES = out
    return out


def by_id(cid):
    for c in cases():
        if c["id"] == cid:
            return c
    return None


def draw_value(rng, shape, dt, mode, sym=3):
    shape = tuple(sym if isinstance(d, str) else d for d in shape)
    dt = np.dtype(dt)
    if dt.kind == "f":
        if mode == 0:
            a = rng.standard_normal(shape) * 2
        elif mode == 1:
            a = rng.choice(POOL[:20], size=shape)
        elif mode == 2:
            a = rng.choice(POOL, size=shape)
        else:
            a = rng.standard_normal(shape) * 0.25
        return np.asarray(a).astype(dt)
    if dt.kind in "iu":
        lo, hi = (0, 9) if dt.kind == "u" else ((-4, 9) if mode in (1, 2) else (0, 5))
        return np.asarray(rng.integers(lo, hi, shape)).astype(dt)
    if dt == np.bool_:
        return np.asarray(rng.random(shape) > 0.5)
    if dt.kind == "c":
        return np.asarray(rng.standard_normal(shape) + 1j * rng.standard_normal(shape)).astype(dt)
    return np.asarray(rng.standard_normal(shape)).astype(dt)


class Prepared:
    pass


def prepare(case, double=False):
    """Builds callable + export arguments exactly as the project's own test generator does.

    Returns None when the testcase has no callable / is not applicable to the requested precision.
    """
    import jax
    import jax.numpy as jnp

    tc = case["tc"]
    fn = tc.get("callable")
    if fn is None:
        return None
    if double and (tc.get("run_only_f32_variant") or tc.get("disable_float64_test")):
        return None
    if not double and (tc.get("run_only_f64_variant") or tc.get("enable_double_precision")):
        return None
    p = Prepared()
    p.case = case
    p.factory = fn if getattr(fn, "__jax2onnx_factory__", False) else None
    fdt = jnp.float64 if double else jnp.float32
    if p.factory is not None:
        fn = p.factory.with_dtype(fdt).instantiate()
    p.fn = fn
    shapes, dts, vals = tc.get("input_shapes"), tc.get("input_dtypes"), tc.get("input_values")
    npf = np.float64 if double else np.float32
    p.structured = False
    if shapes is not None:
        dts2 = [np.dtype(d) for d in dts] if dts else [np.dtype(npf)] * len(shapes)
        if double:
            dts2 = [np.dtype(np.float64) if d == np.float32 else d for d in dts2]
        p.shapes = [tuple(s) for s in shapes]
        p.dtypes = dts2
        if dts:
            p.specs = [jax.ShapeDtypeStruct(tuple(s), d) for s, d in zip(shapes, dts2)]
        elif double:
            p.specs = [jax.ShapeDtypeStruct(tuple(s), np.float64) for s in shapes]
        else:
            p.specs = [tuple(s) for s in shapes]
        p.base = None
    elif vals is not None:
        base = [np.asarray(v) for v in vals]
        conv = []
        for f in base:
            if f.dtype == np.float64 and not double:
                f = f.astype(np.float32)
            elif f.dtype == np.float32 and double:
                f = f.astype(np.float64)
            elif f.dtype == np.int64 and not double:
                f = f.astype(np.int32)
            conv.append(f)
        p.base = conv
        p.shapes = [f.shape for f in conv]
        p.dtypes = [f.dtype for f in conv]
        p.specs = [jax.ShapeDtypeStruct(f.shape, f.dtype) for f in conv]
        p.structured = True
    else:
        p.shapes, p.dtypes, p.specs, p.base = [], [], [], None
    kw = {}
    for k in ("inputs_as_nchw", "outputs_as_nchw", "normalization_mode", "input_params"):
        if tc.get(k) is not None:
            kw[k] = tc[k]
    if tc.get("opset_version"):
        kw["opset"] = tc["opset_version"]
    if double:
        kw["enable_double_precision"] = True
    p.kw = kw
    p.params = tc.get("input_params") or {}
    p.symbols = sorted({d for s in p.shapes for d in s if isinstance(d, str)})
    return p


# Components whose 1-D table input is documented as "monotonic" / "sorted" (not strictly): a table with repeated or
# all-equal edges is in their domain (numpy.digitize: "bins ... must be monotonic"; numpy.searchsorted: "a ... sorted").
FLAT_TABLE_OK = ("digitize", "searchsorted")


def structural_variants(p):
    """Extra feed sets for structured inputs that stay inside the documented domain (same shapes)."""
    if p.base is None or not any(k in str(p.case["id"]).lower() for k in FLAT_TABLE_OK):
        return []
    out = []
    for i, b in enumerate(p.base):
        if b.ndim == 1 and b.size >= 2 and b.dtype.kind == "f" and (np.all(np.diff(b) >= 0) or np.all(np.diff(b) <= 0)):
            flat = [x.copy() for x in p.base]
            flat[i] = np.full_like(b, b[0])
            out.append(("flat_table", flat))
            dup = [x.copy() for x in p.base]
            d = b.copy()
            d[1] = d[0]
            dup[i] = d
            out.append(("repeated_edge", dup))
    return out


def has_data_dependent_loop(p):
    """True when the callable traces to a while primitive (lax.while_loop, gcd/lcm, dynamic fori_loop): termination then
    depends on the values, and neither an eager JAX loop nor an ONNX Runtime Loop can be interrupted from Python."""
    got = getattr(p, "_ddl", None)
    if got is not None:
        return got
    try:
        import jax

        specs = [jax.ShapeDtypeStruct(tuple(3 if isinstance(d, str) else d for d in sh), dt) for sh, dt in zip(p.shapes, p.dtypes)]
        jp = str(jax.make_jaxpr(lambda *a: p.fn(*a, **p.params))(*specs))
        got = " while[" in jp or "while_loop" in jp
    except Exception:
        got = "while" in str(p.case.get("id", "")).lower()
    p._ddl = got
    return got


def feeds(p, rng, mode, sym=3):
    if has_data_dependent_loop(p):
        # only the authors' exact values (or, without any, the benign pool) are known to terminate
        if p.base is not None:
            return [b.copy() for b in p.base]
        mode = 3
    if p.base is not None:
        sc = SCALES[mode % len(SCALES)]
        return [(b * np.asarray(sc, b.dtype) if b.dtype.kind == "f" else b) for b in p.base]
    return [draw_value(rng, s, d, mode, sym) for s, d in zip(p.shapes, p.dtypes)]


def ort_feeds(p, sess, fds):
    """Maps positional feeds (+ input_params) to the session's declared inputs, applying NCHW flags and complex packing."""
    ofeeds = list(fds)
    for i in p.kw.get("inputs_as_nchw") or []:
        ofeeds[i] = np.transpose(ofeeds[i], (0, 3, 1, 2))
    fd = {}
    it = iter(ofeeds)
    for i in sess.get_inputs():
        if i.name in p.params:
            fd[i.name] = np.asarray(p.params[i.name])
            continue
        a = np.asarray(next(it))
        if a.dtype.kind == "c":
            a = np.stack([a.real, a.imag], axis=-1).astype(np.float64 if "double" in i.type else np.float32)
        fd[i.name] = a
    return fd


def unpermute_outputs(p, got):
    out = []
    for oi, g in enumerate(got):
        if oi in (p.kw.get("outputs_as_nchw") or []):
            g = np.transpose(g, (0, 2, 3, 1))
        out.append(g)
    return out
