"""Grammar of small ONNX graphs over the vocabulary the optimizer's rewrite rules match on.

A graph is a JSON *spec* (so it can be replayed, minimised and printed):
  {"opset", "inputs": [[name, dt, shape]], "inits": [[name, dt, shape, flat-values]],
   "nodes": [{"op","i","o","a","g"}], "outputs": [names], "vi": {name: [dt, shape]},
   "bind": {"B": 2, "N": 3}, "feed_seed": int}
Shapes may contain the symbols "B"/"N".  `build_model` turns a spec into a ModelProto,
`make_feeds` draws concrete inputs.  `graph_specs()` is the Hypothesis strategy: pattern-seeded
neighbourhoods of every rewrite rule mixed with free random steps, with a generated subset of
all values marked as graph outputs.
"""

from __future__ import annotations

import numpy as np
import onnx
from onnx import TensorProto as TP
from onnx import helper as h
from hypothesis import strategies as st

DT = {"f": TP.FLOAT, "d": TP.DOUBLE, "h": TP.FLOAT16, "i": TP.INT32, "l": TP.INT64, "b": TP.BOOL, "u": TP.UINT8, "c": TP.INT8}
NPDT = {"f": np.float32, "d": np.float64, "h": np.float16, "i": np.int32, "l": np.int64, "b": np.bool_, "u": np.uint8, "c": np.int8}

UNARY = ["Relu", "Tanh", "Sigmoid", "Neg", "Abs", "Exp", "Identity", "Sqrt", "Elu", "LeakyRelu", "Gelu", "Log"]
CHAIN_UNARY = ["Relu", "Tanh", "Sigmoid", "Identity", "Elu", "Elu", "LeakyRelu", "Gelu", "Elu"]  # subset in ALLOWED_ELEMWISE (Elu: not repaired by the shape-propagation passes)
BINARY = ["Add", "Mul", "Sub", "Max", "Min", "Div"]
CHAIN_BINARY = ["Max", "Min"]
PERMS = {
    2: [(1, 0)],
    3: [(0, 2, 1), (2, 0, 1), (1, 2, 0), (2, 1, 0), (1, 0, 2)],
    4: [(0, 3, 1, 2), (0, 2, 3, 1), (0, 1, 3, 2), (3, 2, 1, 0), (0, 2, 1, 3), (1, 0, 2, 3)],
}
BASES = [(2, 3, 4, 5), (2, 3, 3, 3), (1, 4, 4, 2), (2, 2, 2, 2), (2, 3, 4), (3, 3, 3), (2, 1, 3), (2, 3), (3, 3), (4, 1)]


def inv_perm(p):
    return tuple(int(i) for i in np.argsort(p))


def conc(shape, bind):
    return tuple(int(bind[d]) if isinstance(d, str) else int(d) for d in shape)


def numel(shape):
    n = 1
    for d in shape:
        n *= d
    return n


class GB:
    def __init__(self, draw, opset):
        self.draw = draw
        self.opset = opset
        self.nodes, self.inits, self.inputs = [], [], []
        self.vals = {}  # name -> (dt, shape tuple)
        self.meta = {}  # name -> {"perm":..., "orig": (shape, src_name)}
        self.cnt = 0
        self.kinds = []

    def fresh(self, p="v"):
        self.cnt += 1
        return f"{p}{self.cnt}"

    def add_input(self, dt, shape):
        n = f"x{len(self.inputs)}"
        self.inputs.append([n, dt, list(shape)])
        self.vals[n] = (dt, tuple(shape))
        return n

    def const(self, dt, shape, vals, p="c"):
        vals = [float(v) if dt in "fdh" else int(v) for v in vals]
        # identical constants are usually one shared initializer in lowered models
        for n0, dt0, shape0, vals0 in self.inits:
            if dt0 == dt and shape0 == list(shape) and vals0 == vals and self.draw(st.integers(0, 3)) > 0:
                return n0
        n = self.fresh(p)
        self.inits.append([n, dt, list(shape), vals])
        return n

    def node(self, op, ins, outs_types, attrs=None, graphs=None, inherit=None, domain=None):
        outs = []
        for dt, shape in outs_types:
            o = self.fresh()
            self.vals[o] = (dt, tuple(shape))
            outs.append(o)
        nd = {"op": op, "i": list(ins), "o": outs}
        if domain:
            nd["d"] = domain
            attrs = None
            self.kinds.append("custom_domain_twin")
        if attrs:
            nd["a"] = attrs
        if graphs:
            nd["g"] = graphs
        self.nodes.append(nd)
        if inherit is not None and inherit in self.meta:
            self.meta[outs[0]] = dict(self.meta[inherit])
        return outs[0] if len(outs) == 1 else outs

    # ------------------------------------------------------------------ pieces
    def static(self, shape):
        return all(isinstance(d, int) for d in shape)

    def side_operand(self, dt, shape, allow_tensor=True):
        """An operand broadcast-compatible with `shape`: scalar / size-1 / full tensor (init or graph input)."""
        opts = ["scalar", "scalar", "size1"]
        if allow_tensor:
            opts += ["input_full", "input_full"]
            if self.static(shape) and numel(shape) <= 130:
                opts.append("init_full")
            if len(shape) >= 2 and isinstance(shape[-1], int):
                opts.append("lastdim")
        k = self.draw(st.sampled_from(opts))
        v = self.draw(st.sampled_from([0.5, 2.0, -1.0, 0.0, 1.0]))
        if k == "scalar":
            return self.const(dt, [], [v]), k
        if k == "size1":
            return self.const(dt, [1] * self.draw(st.integers(1, max(1, len(shape)))), [v]), k
        if k == "init_full":
            n = numel(shape)
            seed = self.draw(st.integers(0, 1000))
            vals = np.random.default_rng(seed).integers(-4, 5, size=n) / 2.0
            return self.const(dt, list(shape), vals.tolist()), k
        if k == "lastdim":
            n = shape[-1]
            return self.const(dt, [n], [0.5 * (i - 1) for i in range(n)]), k
        return self.add_input(dt, shape), k

    def unary(self, src, ops=UNARY):
        dt, shape = self.vals[src]
        op = self.draw(st.sampled_from(ops))
        attrs = None
        if op == "LeakyRelu":
            attrs = {"alpha": 0.1}
        if op == "Elu":
            attrs = {"alpha": 1.0}
        return self.node(op, [src], [(dt, shape)], attrs, inherit=src, domain=self.twin_domain(op, dt, shape))

    def twin_domain(self, op, dt, shape):
        """Now and then the node is a call of a model-local function that merely *shares the name* of the operator
        (jax2onnx names function domains custom.<Name>.1 and the op_type after the user's class/function, so a user
        module called Tanh or Add yields exactly this); its body (see _twin_function) is neither elementwise nor
        layout-free, so a rewrite that matches on op_type alone changes results."""
        if dt != "f" or len(shape) < 1 or op in ("Identity",) or self.draw(st.integers(0, 11)) != 0:
            return None
        return f"custom.{op}.1"

    def binary_side(self, src, ops=BINARY, allow_tensor=True):
        dt, shape = self.vals[src]
        op = self.draw(st.sampled_from(ops))
        c, kind = self.side_operand(dt, shape, allow_tensor)
        ins = [src, c] if self.draw(st.booleans()) else [c, src]
        self.kinds.append("side_" + kind)
        return self.node(op, ins, [(dt, shape)], inherit=src, domain=self.twin_domain(op, dt, shape))

    def clip(self, src):
        dt, shape = self.vals[src]
        lo = self.const(dt, [], [-1.0])
        hi = self.const(dt, [], [1.5])
        ins = self.draw(st.sampled_from([[src, lo, hi], [src, lo], [src, "", hi]]))
        return self.node("Clip", ins, [(dt, shape)], inherit=src)

    def chain_step(self, cur):
        """One ALLOWED_ELEMWISE op keeping dtype float."""
        k = self.draw(st.sampled_from(["u", "u", "u", "b", "clip", "castpair", "castlike"]))
        dt, shape = self.vals[cur]
        if dt != "f":
            k = "u" if dt in "fdh" else "ident"
        if k == "u":
            return self.unary(cur, CHAIN_UNARY)
        if k == "ident":
            return self.node("Identity", [cur], [(dt, shape)], inherit=cur)
        if k == "b":
            return self.binary_side(cur, CHAIN_BINARY)
        if k == "clip":
            return self.clip(cur)
        if k == "castlike":
            ex = self.const("f", [], [1.0])
            return self.node("CastLike", [cur, ex], [(dt, shape)], inherit=cur)
        to = self.draw(st.sampled_from(["d", "h", "i"]))
        mid = self.node("Cast", [cur], [(to, shape)], {"to": DT[to]}, inherit=cur)
        return self.node("Cast", [mid], [("f", shape)], {"to": DT["f"]}, inherit=cur)

    def transpose(self, src, perm):
        dt, shape = self.vals[src]
        o = self.node("Transpose", [src], [(dt, tuple(shape[i] for i in perm))], {"perm": list(perm)})
        self.meta[o] = {"perm": tuple(perm)}
        return o

    def pick(self, pred=lambda n, dt, s: True):
        c = [n for n, (dt, s) in self.vals.items() if pred(n, dt, s)]
        return self.draw(st.sampled_from(c)) if c else None

    def pick_interior(self, dt_want="f"):
        """A value produced by a rewrite-relevant node that already has a direct consumer: the interior of a fold."""
        used = {i for nd in self.nodes for i in nd["i"]}
        c = [o for nd in self.nodes if nd["op"] in ("Transpose", "Reshape", "Add", "Cast", "Relu", "Tanh", "Neg", "Mul", "Sigmoid")
             for o in nd["o"] if o in used and o in self.vals and self.vals[o][0] == dt_want]
        return self.draw(st.sampled_from(sorted(set(c)))) if c else None

    def pick_capture(self):
        # half of the captures aim at the interior of a fold (the value a rewrite wants to remove or relayout)
        v = self.pick_interior() if self.draw(st.booleans()) else None
        if v is None:
            v = self.pick(lambda n, dt, s: dt == "f" and n not in [i[0] for i in self.inputs])
        if v is None:
            v = self.pick(lambda n, dt, s: dt == "f")
        return v

    # ---------------------------------------------------------------- patterns
    def pat_tpair(self):
        src = self.pick(lambda n, dt, s: dt == "f" and len(s) in PERMS)
        if src is None:
            return
        dt, shape = self.vals[src]
        p = self.draw(st.sampled_from(PERMS[len(shape)]))
        cur = self.transpose(src, p)
        for _ in range(self.draw(st.integers(0, 3))):
            cur = self.chain_step(cur)
            if self.draw(st.integers(0, 5)) == 0:  # second consumer of an interior value
                self.unary(cur)
        if self.vals[cur][0] != "f":
            return
        q = inv_perm(p) if self.draw(st.integers(0, 6)) else self.draw(st.sampled_from(PERMS[len(shape)]))
        return self.transpose(cur, q)

    def pat_tforest(self):
        """elementwise DAG with several transposed inputs (scale + residual add style)."""
        src = self.pick(lambda n, dt, s: dt == "f" and len(s) in PERMS)
        if src is None:
            return
        dt, shape = self.vals[src]
        p = self.draw(st.sampled_from(PERMS[len(shape)]))
        a = self.transpose(src, p)
        others = [n for n, (d2, s2) in self.vals.items() if d2 == dt and s2 == shape and n != src]
        other = self.draw(st.sampled_from(others)) if others and self.draw(st.booleans()) else self.add_input(dt, shape)
        b = self.transpose(other, p if self.draw(st.integers(0, 5)) else self.draw(st.sampled_from(PERMS[len(shape)])))
        if self.vals[a][1] != self.vals[b][1]:
            return
        if self.draw(st.booleans()):
            a = self.binary_side(a, ["Mul", "Add", "Sub"], allow_tensor=self.draw(st.booleans()))
        op = self.draw(st.sampled_from(["Add", "Add", "Mul", "Sub", "Max", "Div"]))
        cur = self.node(op, [a, b], [self.vals[a]])
        self.meta[cur] = {"perm": p}
        if self.draw(st.booleans()):
            cur = self.unary(cur, CHAIN_UNARY + ["Abs", "Neg"])
        if self.draw(st.integers(0, 3)) == 0:
            c3 = self.transpose(self.pick(lambda n, d2, s2: d2 == dt and s2 == shape) or src, p)
            cur = self.node("Add", [cur, c3], [self.vals[cur]])
        out = self.transpose(cur, inv_perm(p))
        if self.draw(st.integers(0, 3)) == 0:
            self.transpose(cur, inv_perm(p))
        return out

    def pat_treduce(self):
        src = self.pick(lambda n, dt, s: dt == "f" and len(s) in (3, 4))
        if src is None:
            return
        dt, shape = self.vals[src]
        r = len(shape)
        p = self.draw(st.sampled_from(PERMS[r]))
        a = self.transpose(src, p)
        ashape = self.vals[a][1]
        axes = self.draw(st.lists(st.integers(-r, r - 1), min_size=1, max_size=2, unique_by=lambda x: x % r))
        keep = 1 if self.draw(st.integers(0, 4)) else 0
        norm = sorted(x % r for x in axes)
        ax = self.const("l", [len(axes)], axes, "axes")
        rs = tuple(1 if i in norm else d for i, d in enumerate(ashape)) if keep else tuple(d for i, d in enumerate(ashape) if i not in norm)
        op = "ReduceMean" if self.draw(st.integers(0, 5)) else self.draw(st.sampled_from(["ReduceSum", "ReduceMax"]))
        red = self.node(op, [a, ax], [(dt, rs)], {"keepdims": keep})
        if self.draw(st.integers(0, 4)) == 0:
            self.unary(red)
        if len(rs) != r:
            return red
        q = inv_perm(p) if self.draw(st.integers(0, 6)) else self.draw(st.sampled_from(PERMS[r]))
        return self.transpose(red, q)

    def pat_treduce2(self):
        """Two Transpose->ReduceMean->Transpose^-1 patterns sharing one axes initializer, with different permutations."""
        src = self.pick(lambda n, dt, s: dt == "f" and len(s) in (3, 4))
        if src is None:
            return
        dt, shape = self.vals[src]
        r = len(shape)
        axes = self.draw(st.lists(st.integers(-r, r - 1), min_size=1, max_size=2, unique_by=lambda x: x % r))
        ax = self.const("l", [len(axes)], axes, "axes")
        norm = sorted(x % r for x in axes)
        last = None
        perms = self.draw(st.lists(st.sampled_from(PERMS[r]), min_size=2, max_size=2, unique=True))
        for p in perms:
            s_i = src if self.draw(st.booleans()) else (self.pick(lambda n, d2, s2: d2 == dt and s2 == shape) or src)
            a = self.transpose(s_i, p)
            ashape = self.vals[a][1]
            rs = tuple(1 if i in norm else d for i, d in enumerate(ashape))
            red = self.node("ReduceMean", [a, ax], [(dt, rs)], {"keepdims": 1})
            last = self.transpose(red, inv_perm(p))
        return last

    def pat_addforest(self):
        src = self.pick(lambda n, dt, s: dt == "f" and len(s) in PERMS)
        if src is None:
            return
        dt, shape = self.vals[src]
        p = self.draw(st.sampled_from(PERMS[len(shape)]))
        k = self.draw(st.integers(2, 4))
        leaves = []
        for i in range(k):
            pool = [n for n, (d2, s2) in self.vals.items() if d2 == dt and s2 == shape]
            s_i = self.draw(st.sampled_from(pool)) if self.draw(st.booleans()) else self.add_input(dt, shape)
            leaves.append(self.transpose(s_i, p))
        tshape = self.vals[leaves[0]]
        if self.draw(st.integers(0, 4)) == 0:  # a non-transposed operand enters the forest
            leaves.append(self.side_operand(dt, tshape[1])[0])
        adds = []
        cur = leaves[0]
        for l in leaves[1:]:
            cur = self.node("Add", [cur, l] if self.draw(st.booleans()) else [l, cur], [tshape])
            adds.append(cur)
        if len(adds) >= 2 and self.draw(st.booleans()):
            # an interior Add whose operands are both forest Adds
            adds.append(self.node("Add", [adds[-2], adds[-1]] if self.draw(st.booleans()) else [adds[0], adds[-1]], [tshape]))
        outs = []
        q = inv_perm(p) if self.draw(st.integers(0, 6)) else self.draw(st.sampled_from(PERMS[len(shape)]))
        for a in adds[-2:] if self.draw(st.integers(0, 2)) == 0 else adds[-1:]:
            outs.append(self.transpose(a, q))
        if self.draw(st.integers(0, 2)) == 0:
            self.reshape_perm(outs[-1])
        return outs[-1]

    def reshape_perm(self, src):
        """Reshape to a permutation of the value's own (static) shape: an identity only if the annotation is right."""
        dt, shape = self.vals[src]
        if not self.static(shape) or len(shape) < 2:
            return None
        perm = self.draw(st.permutations(range(len(shape))))
        tgt = tuple(shape[i] for i in perm)
        return self.reshape_to(src, tgt, tgt)

    def reshape_to(self, src, target_spec, out_shape):
        dt, _ = self.vals[src]
        c = self.const("l", [len(target_spec)], target_spec, "shape")
        return self.node("Reshape", [src, c], [(dt, tuple(out_shape))])

    def pat_rpair(self):
        src = self.pick(lambda n, dt, s: dt == "f" and len(s) >= 2)
        if src is None:
            return
        dt, shape = self.vals[src]
        if self.static(shape):
            n = numel(shape)
            opts = [((n,), (-1,)), ((shape[0], n // shape[0]), (shape[0], -1)), ((n // shape[-1], shape[-1]), (-1, shape[-1])),
                    ((1,) + tuple(shape), (1,) + tuple(shape)), ((shape[0], n // shape[0]), (0, -1))]
            oshape, tspec = self.draw(st.sampled_from(opts))
            a = self.reshape_to(src, tspec, oshape)
        else:
            # symbolic leading dim: [0, -1] keeps it, [-1] flattens everything
            if isinstance(shape[0], str) and self.static(shape[1:]):
                if self.draw(st.booleans()):
                    a = self.reshape_to(src, (0, -1), (shape[0], numel(shape[1:])))
                else:
                    a = self.reshape_to(src, (0,) + tuple(reversed(shape[1:])), (shape[0],) + tuple(reversed(shape[1:])))
            else:
                a = self.reshape_to(src, (-1,), ("_flat",))
        cur = a
        for _ in range(self.draw(st.integers(0, 3))):
            if self.vals[cur][1] == ("_flat",):
                cur = self.unary(cur, CHAIN_UNARY)
            else:
                cur = self.chain_step(cur)
            if self.draw(st.integers(0, 6)) == 0:
                self.unary(cur)
        if self.vals[cur][0] != "f":
            return
        # back to the source shape (or to a same-size neighbour)
        back = self.draw(st.sampled_from(["orig", "orig", "orig", "shapeof", "swap"]))
        if back == "shapeof" or not self.static(shape):
            if back == "swap" and len(shape) == 2 and shape[0] != shape[1]:
                sh = self.node("Shape", [src], [("l", (2,))])
                i0 = self.const("l", [1], [0], "idx")
                i1 = self.const("l", [1], [1], "idx")
                d0 = self.node("Gather", [sh, i0], [("l", (1,))], {"axis": 0})
                d1 = self.node("Gather", [sh, i1], [("l", (1,))], {"axis": 0})
                tgt = self.node("Concat", [d1, d0], [("l", (2,))], {"axis": 0})
                return self.node("Reshape", [cur, tgt], [(dt, (shape[1], shape[0]))])
            sh = self.node("Shape", [src], [("l", (len(shape),))])
            return self.node("Reshape", [cur, sh], [(dt, shape)])
        if back == "swap":
            perm = list(reversed(range(len(shape))))
            tshape = tuple(shape[i] for i in perm)
            return self.reshape_to(cur, tshape, tshape)
        return self.reshape_to(cur, shape, shape)

    def pat_rid(self):
        src = self.pick(lambda n, dt, s: dt in "fi" and len(s) >= 1 and "_flat" not in s)
        if src is None:
            return
        dt, shape = self.vals[src]
        mode = self.draw(st.sampled_from(["same", "zero", "minus1"]))
        spec = list(shape)
        if not self.static(shape):
            spec = [0 if isinstance(d, str) else d for d in shape]
        elif mode == "zero":
            spec[0] = 0
        elif mode == "minus1":
            spec[-1] = -1
        return self.reshape_to(src, spec, shape)

    def pat_castpair(self):
        src = self.pick(lambda n, dt, s: dt in "fil")
        if src is None:
            return
        dt, shape = self.vals[src]
        to = self.draw(st.sampled_from([t for t in "fdhilbu" if t != dt]))
        mid = self.node("Cast", [src], [(to, shape)], {"to": DT[to]})
        if self.draw(st.integers(0, 3)) == 0:
            mid = self.node("Identity", [mid], [(to, shape)])
        back = dt if self.draw(st.integers(0, 5)) else self.draw(st.sampled_from(["f", "d", "i"]))
        return self.node("Cast", [mid], [(back, shape)], {"to": DT[back]})

    def pat_identity_cast(self):
        src = self.pick(lambda n, dt, s: dt in "fil")
        if src is None:
            return
        dt, shape = self.vals[src]
        return self.node("Cast", [src], [(dt, shape)], {"to": DT[dt]})

    def pat_swish(self):
        src = self.pick(lambda n, dt, s: dt == "f")
        if src is None:
            return
        dt, shape = self.vals[src]
        sg = self.node("Sigmoid", [src], [(dt, shape)])
        other = src
        if self.draw(st.integers(0, 4)) == 0:
            cands = [n for n, (d2, s2) in self.vals.items() if d2 == dt and s2 == shape and n != sg]
            other = self.draw(st.sampled_from(cands))
        ins = [other, sg] if self.draw(st.booleans()) else [sg, other]
        out = self.node("Mul", ins, [(dt, shape)])
        if self.draw(st.integers(0, 3)) == 0:
            self.unary(sg)
        return out

    def pat_dropout(self):
        src = self.pick(lambda n, dt, s: dt == "f")
        if src is None:
            return
        dt, shape = self.vals[src]
        ratio = self.const("f", [], [0.5], "ratio")
        mode = self.draw(st.sampled_from(["not_true", "not_true", "const_false", "not_input", "two"]))
        if mode == "const_false":
            tm = self.const("b", [], [0], "tm")
        elif mode == "not_input":
            return None  # dynamic training mode would make Dropout random: excluded (non-deterministic oracle)
        else:
            t = self.const("b", [], [1], "true")
            tm = self.node("Not", [t], [("b", ())])
        outs = self.node("Dropout", [src, ratio, tm], [(dt, shape), ("b", shape)])
        if mode == "two":
            self.node("Dropout", [outs[0], ratio, tm], [(dt, shape), ("b", shape)])
        return outs[0]

    def pat_cse(self):
        src = self.pick(lambda n, dt, s: dt == "f")
        if src is None:
            return
        a = self.unary(src, ["Relu", "Tanh"])
        last = self.nodes[-1]
        dt, shape = self.vals[src]
        b = self.node(last["op"], [src], [(dt, shape)], last.get("a"), domain=last.get("d"))
        return self.node("Add", [a, b], [(dt, shape)]) if self.draw(st.booleans()) else b

    def pat_range(self):
        n = self.draw(st.integers(0, 6))
        start = self.draw(st.sampled_from([0, 1, -3, 100, 120, 126, 250, -126, 2**31 - 8, 2**31 - 2]))
        delta = self.draw(st.sampled_from([1, 2, 3, 5, 10, -1, -2, -7]))
        # the span need not be a multiple of the stride: Range then emits ceil(span/stride) elements
        extra = self.draw(st.integers(0, abs(delta) - 1))
        limit = start + n * delta + (extra if delta > 0 else -extra)
        n = max(0, -((start - limit) // delta))
        s = self.const("l", [], [start], "start")
        l = self.const("l", [], [limit], "limit")
        d = self.const("l", [], [delta], "delta")
        r = self.node("Range", [s, l, d], [("l", (n,))])
        to = self.draw(st.sampled_from(["i", "c", "u"]))
        mid = self.node("Cast", [r], [(to, (n,))], {"to": DT[to]})
        return self.node("Cast", [mid], [("l", (n,))], {"to": DT["l"]})

    def pat_if(self):
        v = self.pick_capture()
        if v is None:
            return
        dt, shape = self.vals[v]
        cond = self.add_input("b", ())
        t_out, e_out = self.fresh("then"), self.fresh("else")
        then_g = {"nodes": [{"op": self.draw(st.sampled_from(["Relu", "Tanh", "Identity"])), "i": [v], "o": [t_out]}], "outputs": [[t_out, dt, list(shape)]]}
        else_g = {"nodes": [{"op": "Neg", "i": [v], "o": [e_out]}], "outputs": [[e_out, dt, list(shape)]]}
        if self.draw(st.integers(0, 2)) == 0:
            # capture only at nesting depth 2: If { If { f(v) } { g(v) } } { zeros-like constant path }
            cond2 = self.add_input("b", ())
            w_out, z_out = self.fresh("inner"), self.fresh("zero")
            inner = {"nodes": [{"op": "If", "i": [cond2], "o": [w_out], "g": {"then_branch": then_g, "else_branch": else_g}}], "outputs": [[w_out, dt, list(shape)]]}
            other = self.pick(lambda n, d2, s2: d2 == dt and s2 == shape and n != v) or self.inputs[0][0]
            if self.vals[other] != (dt, shape):
                return self.node("If", [cond], [(dt, shape)], graphs={"then_branch": inner, "else_branch": else_g})
            outer_else = {"nodes": [{"op": "Abs", "i": [other], "o": [z_out]}], "outputs": [[z_out, dt, list(shape)]]}
            return self.node("If", [cond], [(dt, shape)], graphs={"then_branch": inner, "else_branch": outer_else})
        return self.node("If", [cond], [(dt, shape)], graphs={"then_branch": then_g, "else_branch": else_g})

    def pat_loop(self):
        v = self.pick_capture()
        if v is None:
            return
        dt, shape = self.vals[v]
        trip = self.const("l", [], [self.draw(st.integers(0, 3))], "trip")
        cond = self.const("b", [], [1], "cond")
        acc0 = self.node("Identity", [v], [(dt, shape)])
        it, ci, ai, co, ao = (self.fresh(p) for p in ("it", "cin", "acc", "cout", "accout"))
        if self.draw(st.integers(0, 2)) == 0:
            # the capture sits in an If inside the Loop body (depth 2)
            c2 = self.add_input("b", ())
            t_o, e_o = self.fresh("lt"), self.fresh("le")
            tg = {"nodes": [{"op": "Add", "i": [ai, v], "o": [t_o]}], "outputs": [[t_o, dt, list(shape)]]}
            eg = {"nodes": [{"op": "Sub", "i": [ai, v], "o": [e_o]}], "outputs": [[e_o, dt, list(shape)]]}
            body_nodes = [{"op": "If", "i": [c2], "o": [ao], "g": {"then_branch": tg, "else_branch": eg}}, {"op": "Identity", "i": [ci], "o": [co]}]
        else:
            body_nodes = [{"op": "Add", "i": [ai, v], "o": [ao]}, {"op": "Identity", "i": [ci], "o": [co]}]
        body = {"inputs": [[it, "l", []], [ci, "b", []], [ai, dt, list(shape)]],
                "nodes": body_nodes,
                "outputs": [[co, "b", []], [ao, dt, list(shape)]]}
        return self.node("Loop", [trip, cond, acc0], [(dt, shape)], graphs={"body": body})

    # -------------------------------------------------------------- free steps
    def free_step(self):
        k = self.draw(st.sampled_from(["T", "T", "Tinv", "U", "U", "B", "Bs", "R", "Rinv", "RM", "W", "Cmp", "Not", "Ident", "Ctwin"]))
        self.kinds.append("free_" + k)
        src = self.pick(lambda n, dt, s: dt == "f" and "_flat" not in s)
        if src is None:
            return
        dt, shape = self.vals[src]
        if k == "T" and len(shape) in PERMS:
            return self.transpose(src, self.draw(st.sampled_from(PERMS[len(shape)])))
        if k == "Tinv":
            c = [n for n in self.meta if "perm" in self.meta[n] and self.vals[n][0] == "f" and len(self.vals[n][1]) == len(self.meta[n]["perm"])]
            if c:
                s2 = self.draw(st.sampled_from(c))
                return self.transpose(s2, inv_perm(self.meta[s2]["perm"]))
            return
        if k == "U":
            return self.unary(src)
        if k == "Ctwin" and len(shape) >= 1:
            # a model-local function that shares its name with a structural operator the rewrites look for
            op = self.draw(st.sampled_from(["Transpose", "Reshape", "Cast", "Identity", "Dropout", "ReduceMean", "Sigmoid", "Not", "Range"]))
            return self.node(op, [src], [(dt, shape)], inherit=src if self.draw(st.booleans()) else None, domain=f"custom.{op}.1")
        if k == "Ident":
            return self.node("Identity", [src], [(dt, shape)], inherit=src)
        if k == "B":
            o = [n for n, (d2, s2) in self.vals.items() if d2 == dt and s2 == shape and n != src]
            if o:
                other = self.draw(st.sampled_from(o))
                return self.node(self.draw(st.sampled_from(BINARY)), [src, other], [(dt, shape)], inherit=src)
            return
        if k == "Bs":
            return self.binary_side(src)
        if k == "R" and self.static(shape) and len(shape) >= 2:
            n = numel(shape)
            return self.reshape_to(src, (-1, shape[-1]), (n // shape[-1], shape[-1]))
        if k == "Rinv":
            return self.reshape_perm(src)
        if k == "RM" and len(shape) >= 2:
            r = len(shape)
            axes = [self.draw(st.integers(0, r - 1))]
            keep = self.draw(st.integers(0, 1))
            ax = self.const("l", [1], axes, "axes")
            rs = tuple(1 if i in axes else d for i, d in enumerate(shape)) if keep else tuple(d for i, d in enumerate(shape) if i not in axes)
            return self.node("ReduceMean", [src, ax], [(dt, rs)], {"keepdims": keep})
        if k == "Cmp":
            z = self.const("f", [], [0.0])
            return self.node(self.draw(st.sampled_from(["Greater", "Less"])), [src, z], [("b", shape)], inherit=src)
        if k == "Not":
            b = self.pick(lambda n, d2, s2: d2 == "b" and len(s2) > 0)
            if b:
                return self.node("Not", [b], [self.vals[b]], inherit=b)
            return
        if k == "W":
            b = self.pick(lambda n, d2, s2: d2 == "b" and s2 == shape)
            o = self.pick(lambda n, d2, s2: d2 == "f" and s2 == shape)
            if b and o:
                return self.node("Where", [b, src, o], [(dt, shape)], inherit=src)
        return


PATTERNS = ["tpair", "tpair", "tpair", "tforest", "tforest", "treduce", "treduce", "treduce2", "addforest", "addforest", "rpair", "rpair", "rid",
            "castpair", "identity_cast", "swish", "dropout", "cse", "range", "if", "loop"]


@st.composite
def graph_specs(draw, patterns=None, max_steps=6):
    opset = draw(st.sampled_from([21, 21, 22, 23, 23, 24, 25]))
    g = GB(draw, opset)
    sym = draw(st.sampled_from(["none", "none", "one", "two"]))
    base = draw(st.sampled_from(BASES))
    if sym != "none":
        base = ("B",) + tuple(base[1:])
    if sym == "two" and len(base) >= 3:
        base = base[:2] + ("N",) + tuple(base[3:])
    g.add_input("f", base)
    if draw(st.booleans()):
        g.add_input("f", base)
    nsteps = draw(st.integers(1, max_steps))
    pats = patterns or PATTERNS
    for _ in range(nsteps):
        if draw(st.integers(0, 2)) < 2:
            p = draw(st.sampled_from(pats))
            g.kinds.append("pat_" + p)
            getattr(g, "pat_" + p)()
        else:
            g.free_step()
    produced = [o for nd in g.nodes for o in nd["o"] if "_flat" not in g.vals[o][1] or True]
    if not produced:
        return None
    k = draw(st.integers(0, min(3, len(produced))))
    outs = draw(st.lists(st.sampled_from(produced), min_size=k, max_size=k, unique=True))
    # every sink value is an output too (otherwise the pattern would be dead code) with high probability
    consumed = {i for nd in g.nodes for i in nd["i"]}
    def _walk_sub(sg):
        for sn in sg["nodes"]:
            consumed.update(sn["i"])
            for sg2 in (sn.get("g") or {}).values():
                _walk_sub(sg2)

    for nd in g.nodes:
        for sg in (nd.get("g") or {}).values():
            _walk_sub(sg)
    sinks = [o for o in produced if o not in consumed]
    for s in sinks:
        if s not in outs and draw(st.integers(0, 7)) != 0:
            outs.append(s)
    if not outs:
        outs = [produced[-1]]
    bind = {"B": draw(st.sampled_from([1, 2, 3])), "N": draw(st.sampled_from([1, 2, 3, 4]))}
    spec = {
        "opset": opset,
        "inputs": g.inputs,
        "inits": g.inits,
        "nodes": g.nodes,
        "outputs": outs,
        "vi": {n: [dt, list(s)] for n, (dt, s) in g.vals.items()},
        "bind": bind,
        "feed_seed": draw(st.integers(0, 10**6)),
        "kinds": g.kinds,
    }
    return spec


# ---------------------------------------------------------------------------


def _vi(name, dt, shape):
    shp = [None if d == "_flat" else d for d in shape]
    return h.make_tensor_value_info(name, DT[dt], shp)


def _attr_nodes(nodes):
    out = []
    for nd in nodes:
        kw = dict(nd.get("a") or {})
        for an, sg in (nd.get("g") or {}).items():
            kw[an] = _subgraph(sg, an)
        if nd.get("d"):
            kw["domain"] = nd["d"]
        out.append(h.make_node(nd["op"], nd["i"], nd["o"], **kw))
    return out


def _custom_calls(nodes, acc):
    for nd in nodes:
        if nd.get("d"):
            acc.add((nd["d"], nd["op"], len(nd["i"])))
        for sg in (nd.get("g") or {}).values():
            _custom_calls(sg["nodes"], acc)
    return acc


def _twin_function(domain, op, arity, opset):
    """Body of a same-named model-local function: a running sum along axis 0 (minus the second operand)."""
    ins = [f"a{i}" for i in range(arity)]
    nodes = [h.make_node("Constant", [], ["ax"], value_int=0), h.make_node("CumSum", [ins[0], "ax"], ["cs"])]
    if arity == 1:
        nodes.append(h.make_node("Identity", ["cs"], ["y"]))
    else:
        nodes.append(h.make_node("Sub", ["cs", ins[1]], ["y"]))
    return h.make_function(domain, op, ins, ["y"], nodes, opset_imports=[h.make_opsetid("", opset)])


def _subgraph(sg, name):
    return h.make_graph(_attr_nodes(sg["nodes"]), name, [_vi(*i) for i in sg.get("inputs", [])], [_vi(*o) for o in sg["outputs"]])


def build_model(spec, annotate=True) -> onnx.ModelProto:
    nodes = _attr_nodes(spec["nodes"])
    vi = spec["vi"]
    inputs = [_vi(n, dt, s) for n, dt, s in spec["inputs"]]
    outputs = [_vi(n, *vi[n]) for n in spec["outputs"]]
    inits = [h.make_tensor(n, DT[dt], shape, np.asarray(vals, dtype=NPDT[dt]).reshape(shape).flatten().tolist() if dt != "h" else np.asarray(vals, dtype=np.float16).view(np.uint16).flatten().tolist())
             for n, dt, shape, vals in spec["inits"]]
    produced = [o for nd in spec["nodes"] for o in nd["o"]]
    value_info = [_vi(n, *vi[n]) for n in produced if n not in spec["outputs"] and n in vi] if annotate else []
    g = h.make_graph(nodes, "g", inputs, outputs, inits, value_info=value_info)
    calls = sorted(_custom_calls(spec["nodes"], set()))
    if not calls:
        return h.make_model(g, opset_imports=[h.make_opsetid("", spec["opset"])], ir_version=10)
    fns = [_twin_function(d, op, ar, spec["opset"]) for d, op, ar in calls]
    imports = [h.make_opsetid("", spec["opset"])] + [h.make_opsetid(d, 1) for d in sorted({c[0] for c in calls})]
    return h.make_model(g, opset_imports=imports, functions=fns, ir_version=10)


def make_feeds(spec):
    rng = np.random.default_rng(spec["feed_seed"])
    feeds = {}
    for n, dt, shape in spec["inputs"]:
        cs = conc(shape, spec["bind"])
        if dt == "b":
            feeds[n] = rng.integers(0, 2, size=cs).astype(np.bool_)
        elif dt in "il":
            feeds[n] = rng.integers(-5, 6, size=cs).astype(NPDT[dt])
        else:
            a = (rng.standard_normal(cs) * 2).astype(NPDT[dt])
            if a.size:
                m = rng.random(cs) < 0.15
                a = np.where(m, rng.choice(np.asarray([0.0, -0.0, 0.5, -1.0, 3.0], dtype=NPDT[dt]), size=cs), a).astype(NPDT[dt])
            feeds[n] = a
    return feeds


# ------------------------------------------------------------- minimisation


def prune_spec(spec):
    """Drop nodes/inits/inputs that no output depends on (keeps the spec valid)."""
    need = set(spec["outputs"])
    keep = []
    for nd in reversed(spec["nodes"]):
        if any(o in need for o in nd["o"]):
            keep.append(nd)
            need.update(i for i in nd["i"] if i)
            def _free(sg, bound):
                local = set(bound) | {i[0] for i in sg.get("inputs", [])}
                for sn in sg["nodes"]:
                    local.update(sn["o"])
                for sn in sg["nodes"]:
                    need.update(i for i in sn["i"] if i and i not in local)
                    for sg2 in (sn.get("g") or {}).values():
                        _free(sg2, local)

            for sg in (nd.get("g") or {}).values():
                _free(sg, set())
    keep.reverse()
    s = dict(spec)
    s["nodes"] = keep
    s["inits"] = [i for i in spec["inits"] if i[0] in need]
    s["inputs"] = [i for i in spec["inputs"] if i[0] in need] or spec["inputs"][:1]
    return s


def shrink_spec(spec, still_fails, max_evals=150):
    """Greedy structural minimiser: drop outputs, bypass shape-preserving nodes, prune."""
    evals = 0
    cur = prune_spec(spec)
    if not still_fails(cur):
        cur = spec
    changed = True
    while changed and evals < max_evals:
        changed = False
        # drop outputs
        for o in list(cur["outputs"]):
            if len(cur["outputs"]) <= 1:
                break
            cand = prune_spec(dict(cur, outputs=[x for x in cur["outputs"] if x != o]))
            evals += 1
            if still_fails(cand):
                cur, changed = cand, True
                break
        if changed:
            continue
        # bypass a node whose output type equals its first input's type
        for idx, nd in enumerate(cur["nodes"]):
            if len(nd["o"]) != 1 or not nd["i"] or not nd["i"][0]:
                continue
            a, b = nd["i"][0], nd["o"][0]
            if cur["vi"].get(a) != cur["vi"].get(b) or b in cur["outputs"]:
                continue
            nodes = []
            for j, other in enumerate(cur["nodes"]):
                if j == idx:
                    continue
                o2 = dict(other, i=[a if x == b else x for x in other["i"]])
                nodes.append(o2)
            cand = prune_spec(dict(cur, nodes=nodes))
            evals += 1
            if evals > max_evals:
                break
            if still_fails(cand):
                cur, changed = cand, True
                break
    return cur
