import sys, os, json, warnings, collections
warnings.filterwarnings("ignore")
sys.path.insert(0,'/tmp'); sys.path.insert(0,'/repo')
import numpy as np, jax, jax.numpy as jnp, onnx
import logging; logging.disable(logging.CRITICAL)
from jax2onnx import to_onnx
import jitfix
from jax2onnx.plugins.plugin_system import PLUGIN_REGISTRY, EXAMPLE_REGISTRY, import_all_plugins
import onnxruntime as ort
ort.set_default_logger_severity(4)
import_all_plugins()
cases=[]
for name, plugin in PLUGIN_REGISTRY.items():
    md = getattr(plugin,'metadata',None)
    if not md: continue
    for tc in md.get('testcases',[]): cases.append((md.get('context'), md.get('component'), tc))
step=int(sys.argv[1]); off=int(sys.argv[2])
sel=[c for i,c in enumerate(cases) if i%step==off]
def schema_problems(m):
    ver={o.domain:o.version for o in m.opset_import}
    probs=[]
    def walk(nodes, ver):
        for n in nodes:
            if n.domain in ("","ai.onnx"):
                v=ver.get("",0)
                try:
                    sch=onnx.defs.get_schema(n.op_type, v, "")
                    # arity
                    if len(n.input)>len(sch.inputs) and not (sch.inputs and sch.inputs[-1].option==onnx.defs.OpSchema.FormalParameterOption.Variadic): probs.append(f"{n.op_type}@{v}: too many inputs")
                    for a in n.attribute:
                        if a.name not in sch.attributes: probs.append(f"{n.op_type}@{v}: attr {a.name} unknown")
                except Exception as e:
                    probs.append(f"{n.op_type}@{v}: no schema")
            for a in n.attribute:
                if a.type==onnx.AttributeProto.GRAPH: walk(a.g.node, ver)
    walk(m.graph.node, ver)
    for f in m.functions: walk(f.node, {o.domain:o.version for o in f.opset_import})
    return probs
res=collections.Counter(); ex={}
for ctx,comp,tc in sel:
    fn = tc.get("callable")
    if getattr(fn,"__jax2onnx_factory__",False): fn = fn.with_dtype(jnp.float32).instantiate()
    shapes=tc.get("input_shapes"); dts=tc.get("input_dtypes"); vals=tc.get("input_values")
    if shapes is not None: specs=[jax.ShapeDtypeStruct(tuple(s),d) for s,d in zip(shapes,dts)] if dts else [tuple(s) for s in shapes]
    elif vals is not None:
        base=[np.asarray(v) for v in vals]; base=[f.astype(np.float32) if f.dtype==np.float64 else (f.astype(np.int32) if f.dtype==np.int64 else f) for f in base]
        specs=[jax.ShapeDtypeStruct(f.shape,f.dtype) for f in base]
    else: specs=[]
    kw={}
    for k in ("inputs_as_nchw","outputs_as_nchw","normalization_mode","input_params"):
        if tc.get(k) is not None: kw[k]=tc[k]
    for ops in range(21,28):
        try: m=to_onnx(fn,specs,opset=ops,**kw)
        except Exception as e:
            res[(ops,"raise:"+type(e).__name__)]+=1; ex.setdefault((ops,"raise"),[]).append((comp,tc["testcase"],str(e)[:100])); continue
        declared={o.domain:o.version for o in m.opset_import}.get("")
        if declared!=ops: res[(ops,"declared!=requested")]+=1; ex.setdefault((ops,"decl"),[]).append((comp,tc["testcase"],declared))
        p=schema_problems(m)
        if p: res[(ops,"schema")]+=1; ex.setdefault((ops,"schema"),[]).append((comp,tc["testcase"],p[:2]))
        try: onnx.checker.check_model(m,full_check=True)
        except Exception as e: res[(ops,"checker")]+=1; ex.setdefault((ops,"checker"),[]).append((comp,tc["testcase"],str(e)[:100]))
        try: ort.InferenceSession(m.SerializeToString(),providers=["CPUExecutionProvider"])
        except Exception as e: res[(ops,"ort")]+=1; ex.setdefault((ops,"ort"),[]).append((comp,tc["testcase"],str(e)[:120]))
        res[(ops,"ok")]+=1
json.dump({"res":{str(k):v for k,v in res.items()},"ex":{str(k):v[:12] for k,v in ex.items()}}, open(f"/tmp/scratch/ops_{off}.json","w"))
