"""Runner shared by all property checks.

A property module (vf/props/cXX.py) provides:

  PROPERTY, LEVEL, RULE, ASSUMPTIONS
  plan(tier, seed)   -> list of JSON-able shard dicts
  work(shard)        -> Acc.to_dict()        (runs in a worker process)
  replay(case)       -> list of violation dicts ({"sig","case","detail"})
  shrink(violation)  -> violation            (optional, bounded, same signature)
  finalize(merged, tier, seed) -> None       (optional: derived coverage keys)

Exit codes: 0 held / only known findings; 1 new violation (VIOLATION line);
2 harness error (never reported as a violation).
"""

from __future__ import annotations

import hashlib
import importlib
import json
import os
import sys
import time
import traceback
from concurrent.futures import ProcessPoolExecutor, as_completed
from concurrent.futures.process import BrokenProcessPool
import multiprocessing as mp

ROOT = os.path.dirname(os.path.dirname(os.path.abspath(__file__)))
NPROC = int(os.environ.get("VERIF_NPROC", "16"))
MAX_SAMPLES = 8


def canon(obj) -> str:
    return json.dumps(obj, sort_keys=True, separators=(",", ":"), default=str)


def digest(obj) -> str:
    return hashlib.sha256(canon(obj).encode()).hexdigest()[:16]


def derive_seed(seed: int, *parts) -> int:
    h = hashlib.sha256(canon([seed, *parts]).encode()).digest()
    return int.from_bytes(h[:4], "big")


class Acc:
    """Per-worker accumulator (JSON-able through to_dict)."""

    def __init__(self):
        self.evaluations = 0
        self.nontrivial = set()
        self.samples = []
        self.violations = []
        self.stats = {}
        self.notes = []
        self.inconclusive = 0

    def case(self, key=None, nontrivial=False, sample=None, n=1):
        self.evaluations += n
        if nontrivial and key is not None:
            self.nontrivial.add(key if isinstance(key, str) else digest(key))
        if sample is not None and len(self.samples) < MAX_SAMPLES:
            self.samples.append(sample)

    def count(self, name, n=1):
        self.stats[name] = self.stats.get(name, 0) + n

    def tally(self, group, name, n=1):
        g = self.stats.setdefault(group, {})
        g[name] = g.get(name, 0) + n

    def violation(self, sig, case, detail=""):
        self.violations.append({"sig": sig, "case": case, "detail": str(detail)[:2000]})
        prog = os.environ.get("VERIF_PROGRESS")  # debugging aid: stream violations of long runs to a jsonl file
        if prog:
            try:
                with open(prog, "a") as fh:
                    fh.write(json.dumps({"sig": sig, "case": case, "detail": str(detail)[:600]}, default=str) + "\n")
            except Exception:
                pass

    def timed(self, label, secs, threshold=15.0):
        """Remember slow cases so that stragglers are visible in evidence."""
        if secs >= threshold:
            lst = self.stats.setdefault("slow_cases", [])
            if len(lst) < 40:
                lst.append(f"{label}: {secs:.0f}s")

    def note(self, text):
        if len(self.notes) < 50:
            self.notes.append(str(text)[:500])

    def to_dict(self):
        return {
            "evaluations": self.evaluations,
            "nontrivial": sorted(self.nontrivial),
            "samples": self.samples,
            "violations": self.violations,
            "stats": self.stats,
            "notes": self.notes,
            "inconclusive": self.inconclusive,
        }


def _merge_stats(dst, src):
    for k, v in src.items():
        if k == "__kind":
            continue
        if isinstance(v, dict):
            _merge_stats(dst.setdefault(k, {}), v)
        elif isinstance(v, (int, float)):
            dst[k] = dst.get(k, 0) + v
        elif isinstance(v, list):
            cur = dst.setdefault(k, [])
            for x in v:
                if x not in cur and len(cur) < 200:
                    cur.append(x)
        else:
            dst.setdefault(k, v)


def _worker_init():
    import logging
    import warnings

    warnings.filterwarnings("ignore")
    logging.disable(logging.CRITICAL)
    try:  # debugging aid (only with VERIF_PROGRESS): `kill -USR1 <worker pid>` dumps its Python stack (diagnosing stragglers)
        import faulthandler
        import signal

        if not os.environ.get("VERIF_PROGRESS"):
            raise RuntimeError("off")
        faulthandler.register(signal.SIGUSR1, file=open(os.path.join("/tmp", f"vf_stack_{os.getpid()}.log"), "w"), all_threads=False)
    except Exception:
        pass
    try:
        import onnxruntime as ort

        ort.set_default_logger_severity(4)
    except Exception:
        pass


def _call(modname, fn, arg):
    t0 = time.monotonic()
    mod = importlib.import_module(modname)
    try:
        if fn == "replay_tagged":
            res = {"__i": arg["__i"], "violations": mod.replay(arg["case"])}
        else:
            res = getattr(mod, fn)(arg)
            if fn == "work" and isinstance(res, dict) and isinstance(arg, dict):
                res.setdefault("stats", {})["__kind"] = arg.get("kind", "shard")
        return {"ok": True, "res": res, "wall": time.monotonic() - t0}
    except BaseException:  # harness error, reported as exit 2 by the parent
        return {"ok": False, "tb": traceback.format_exc(), "arg": arg}


def run_pool(modname, fn, args, nproc=None):
    """Run fn(arg) for all args in spawned workers; yields result dicts in completion order."""
    if not args:
        return
    nproc = min(nproc or NPROC, len(args))
    ctx = mp.get_context("spawn")
    with ProcessPoolExecutor(max_workers=nproc, mp_context=ctx, initializer=_worker_init) as ex:
        futs = [ex.submit(_call, modname, fn, a) for a in args]
        for f in as_completed(futs):
            yield f.result()


class HarnessError(Exception):
    pass


class CaseTimeout(Exception):
    pass


class time_limit:
    """SIGALRM-based wall-clock guard for one case inside a worker (main thread only).  A hit means 'inconclusive'."""

    def __init__(self, seconds):
        self.seconds = int(max(1, seconds))

    def __enter__(self):
        import signal

        def handler(signum, frame):
            raise CaseTimeout()

        self._old = signal.signal(signal.SIGALRM, handler)
        signal.alarm(self.seconds)
        return self

    def __exit__(self, et, ev, tb):
        import signal

        signal.alarm(0)
        signal.signal(signal.SIGALRM, self._old)
        return False


def load_findings(prop):
    path = os.path.join(ROOT, "known_findings", f"{prop}.json")
    if not os.path.exists(path):
        return []
    with open(path) as fh:
        data = json.load(fh)
    return data.get("entries", [])


def sig_matches(match: dict, sig: dict) -> bool:
    for k, v in match.items():
        if k not in sig:
            return False
        sv = sig[k]
        if isinstance(v, list) and not isinstance(sv, list):
            if sv not in v:
                return False
        elif sv != v:
            return False
    return True


def validate_evidence(ev):
    schema_path = "/root/.vp/EVIDENCE.schema.json"
    local = os.path.join(ROOT, "vf", "EVIDENCE.schema.json")
    sp = local if os.path.exists(local) else schema_path
    try:
        sys.path.insert(0, os.path.join(ROOT, ".deps"))
        import jsonschema  # type: ignore

        with open(sp) as fh:
            jsonschema.validate(ev, json.load(fh))
    except ImportError:
        cov = ev["coverage"]
        for k in ("evaluations", "distinct_nontrivial", "rule", "samples"):
            if k not in cov:
                raise HarnessError(f"evidence lacks coverage.{k}")
        if cov["evaluations"] < 1 or cov["distinct_nontrivial"] < 2 or not cov["samples"]:
            raise HarnessError("evidence coverage below schema minimum")
    finally:
        if sys.path and sys.path[0].endswith(".deps"):
            sys.path.pop(0)


def run_property(prop: str, tier: str, seed: int, replay_path: str | None = None) -> int:
    modname = f"vf.props.{prop.lower()}"
    mod = importlib.import_module(modname)
    t0 = time.monotonic()

    if replay_path:
        with open(replay_path) as fh:
            rec = json.load(fh)
        case = rec["case"] if "case" in rec else rec
        out = list(run_pool(modname, "replay", [case], nproc=1))[0]
        if not out["ok"]:
            sys.stderr.write(out["tb"])
            return 2
        vs = out["res"]
        if vs:
            print(f"VIOLATION property={prop} replay={replay_path}")
            for v in vs[:3]:
                print("  sig=" + canon(v["sig"]) + " detail=" + v["detail"][:300])
            return 1
        print(f"replay: property={prop} holds on {replay_path}")
        return 0

    # replays/ only ever holds the violations of the latest run of this property
    rdir = os.path.join(ROOT, "replays", prop)
    if os.path.isdir(rdir):
        for fn in os.listdir(rdir):
            if fn.endswith(".json"):
                os.unlink(os.path.join(rdir, fn))
    findings = load_findings(prop)
    open_findings = [f for f in findings if f.get("status") == "open"]

    # 1. replay every open known finding
    known_lines = []
    stale = []
    repro_args = [f["repro"] for f in open_findings if f.get("repro") is not None]
    if repro_args:
        idx = [i for i, f in enumerate(open_findings) if f.get("repro") is not None]
        results = {}
        # keep result order aligned with input order by tagging
        tagged = [{"__i": i, "case": c} for i, c in zip(idx, repro_args)]
        for out in run_pool(modname, "replay_tagged", tagged):
            if not out["ok"]:
                sys.stderr.write(out["tb"])
                return 2
            results[out["res"]["__i"]] = out["res"]["violations"]
        for i in idx:
            f = open_findings[i]
            if results.get(i):
                f["_seen"] = True
            else:
                stale.append(f["id"])

    # 1b. committed regression corpus (shrunk former failures): replayed before the search
    corpus_violations = []
    cdir = os.path.join(ROOT, "corpus", prop)
    corpus_cases = []
    if os.path.isdir(cdir):
        for fn in sorted(os.listdir(cdir)):
            if fn.endswith(".json"):
                with open(os.path.join(cdir, fn)) as fh:
                    rec = json.load(fh)
                corpus_cases.append({"__i": len(corpus_cases), "case": rec["case"] if "case" in rec else rec, "file": fn})
    if corpus_cases:
        for out in run_pool(modname, "replay_tagged", corpus_cases):
            if not out["ok"]:
                sys.stderr.write(out["tb"])
                return 2
            for v in out["res"]["violations"]:
                v = dict(v)
                v["detail"] = f"[corpus {corpus_cases[out['res']['__i']]['file']}] " + v.get("detail", "")
                corpus_violations.append(v)

    # 2. the search
    shards = mod.plan(tier, seed)
    only = os.environ.get("VERIF_ONLY_KIND")  # debugging aid: restrict a run to one shard kind
    if only:
        shards = [s for s in shards if s.get("kind") in only.split(",")]
    merged = {
        "evaluations": 0,
        "nontrivial": set(),
        "samples": [],
        "violations": [],
        "stats": {},
        "notes": [],
        "inconclusive": 0,
    }
    for out in run_pool(modname, "work", shards):
        if not out["ok"]:
            sys.stderr.write(out["tb"])
            sys.stderr.write(f"HARNESS ERROR in shard {canon(out['arg'])[:300]}\n")
            return 2
        r = out["res"]
        kind = str(r.get("stats", {}).get("__kind", "shard"))
        sw = merged["stats"].setdefault("shard_wall_s", {})
        sw[kind] = round(sw.get(kind, 0) + out["wall"], 1)
        sw[kind + "_max"] = round(max(sw.get(kind + "_max", 0), out["wall"]), 1)
        merged["evaluations"] += r["evaluations"]
        merged["nontrivial"].update(r["nontrivial"])
        for s in r["samples"]:
            if len(merged["samples"]) < MAX_SAMPLES:
                merged["samples"].append(s)
        merged["violations"].extend(r["violations"])
        _merge_stats(merged["stats"], r["stats"])
        merged["notes"].extend(r["notes"][:10])
        merged["inconclusive"] += r.get("inconclusive", 0)

    merged["violations"].extend(corpus_violations)
    merged["stats"]["corpus_cases_replayed"] = len(corpus_cases)
    if hasattr(mod, "finalize"):
        mod.finalize(merged, tier, seed)

    # 3. bucket violations by signature, match known findings
    buckets = {}
    for v in merged["violations"]:
        buckets.setdefault(canon(v["sig"]), []).append(v)
    new = []
    suppressed = 0
    for key in sorted(buckets):
        vs = buckets[key]
        sig = vs[0]["sig"]
        hit = None
        for f in open_findings:
            if sig_matches(f.get("match", {}), sig):
                hit = f
                break
        if hit is not None:
            hit["_seen"] = True
            suppressed += len(vs)
        else:
            # smallest case first: cheapest representative
            vs.sort(key=lambda v: len(canon(v["case"])))
            new.append(vs[0])

    for f in open_findings:
        if f.get("_seen"):
            known_lines.append(f"KNOWN-FINDING: property={prop} {f['id']}: {f['summary']}")

    # 4. shrink + write replays for new violations
    replay_paths = []
    if new and hasattr(mod, "shrink") and os.environ.get("VERIF_NO_SHRINK") != "1":
        shrunk = []
        for out in run_pool(modname, "shrink", new[:16]):
            if out["ok"] and out["res"]:
                shrunk.append(out["res"])
        # keep originals for signatures whose shrink failed
        have = {canon(v["sig"]) for v in shrunk}
        new = shrunk + [v for v in new if canon(v["sig"]) not in have]
    for v in new:
        d = os.path.join(ROOT, "replays", prop)
        os.makedirs(d, exist_ok=True)
        p = os.path.join(d, digest(v["sig"]) + ".json")
        with open(p, "w") as fh:
            json.dump({"property": prop, "sig": v["sig"], "detail": v["detail"], "case": v["case"]}, fh, indent=1, default=str)
        replay_paths.append(p)

    wall = time.monotonic() - t0
    cov = {
        "evaluations": int(merged["evaluations"]),
        "distinct_nontrivial": len(merged["nontrivial"]),
        "rule": mod.RULE,
        "samples": merged["samples"] or ["<none>"],
        "stats": merged["stats"],
        "shards": len(shards),
        "inconclusive_remainder": merged["inconclusive"],
        "known_findings_open": [f["id"] for f in open_findings],
        "known_findings_seen": [f["id"] for f in open_findings if f.get("_seen")],
        "known_findings_stale": stale,
        "violations_suppressed_by_known_findings": suppressed,
        "new_violation_signatures": [v["sig"] for v in new][:40],
        "notes": merged["notes"][:40],
    }
    for k, v in merged.get("extra", {}).items():
        cov[k] = v
    ev = {
        "property_id": prop,
        "tier": tier,
        "seed": int(seed),
        "level": mod.LEVEL,
        "coverage": cov,
        "assumptions": list(mod.ASSUMPTIONS),
        "wall_s": round(wall, 2),
        "violations": len(new),
    }
    try:
        validate_evidence(ev)
    except HarnessError as e:
        sys.stderr.write(f"HARNESS ERROR: {e}\n")
        _write_evidence(prop, ev)
        return 2
    except Exception as e:  # schema violation
        sys.stderr.write(f"HARNESS ERROR: evidence does not validate: {e}\n")
        return 2
    _write_evidence(prop, ev)

    for line in known_lines:
        print(line)
    print(
        f"{prop} tier={tier} seed={seed}: evaluations={cov['evaluations']} "
        f"distinct_nontrivial={cov['distinct_nontrivial']} new_violations={len(new)} "
        f"known_seen={len(known_lines)} wall={wall:.1f}s"
    )
    if new:
        for v, p in zip(new, replay_paths):
            print(f"VIOLATION property={prop} replay={p}")
            print("  sig=" + canon(v["sig"]) + " detail=" + v["detail"][:400].replace("\n", " | "))
        return 1
    return 0


def _write_evidence(prop, ev):
    # sensitivity experiments (VERIF_REPO = a scratch worktree with a seeded change) must not overwrite the evidence of /repo
    d = os.path.join(ROOT, "evidence_scratch" if os.environ.get("VERIF_REPO") else "evidence")
    os.makedirs(d, exist_ok=True)
    with open(os.path.join(d, f"{prop}.json"), "w") as fh:
        json.dump(ev, fh, indent=1, default=str, sort_keys=True)
        fh.write("\n")
