"""C11 — the requested opset is honoured."""

from __future__ import annotations

import numpy as np

from vf.core import Acc, derive_seed, digest

PROPERTY = "C11"
LEVEL = "exploration"
RULE = (
    "registered testcases (seeded sample in quick, all in thorough) plus generated compositions / control-flow / function programs x target opset "
    "21..newest defined by the installed onnx (27); opsets 13..20 are explored and only reported. Oracle for every node, recursively through "
    "subgraphs and inside functions with the function's own imports: onnx.defs.get_schema(op, declared_version, domain) exists (nothing newer "
    "than the requested opset), input/output arity fits the schema (variadics honoured), every attribute name exists in that schema version; the "
    "declared default-domain version equals the requested opset; full checker + strict inference pass; ORT loads (opset 27 is refused by ORT 1.30: "
    "schema/checker only) and its outputs equal those of the default-opset export on the same feeds. to_onnx raising is the allowed alternative. "
    "non-trivial = (program, opset) whose node multiset differs from the default-opset export or that uses an operator whose schema changed within "
    "3 versions of the requested opset; distinct by (program id, opset)."
)
ASSUMPTIONS = [
    "onnx.defs of the installed onnx (1.22) is the reference for operator signatures per opset",
    "ORT 1.30 refuses opset 27 models and lacks a few kernels (Swish-24, Random*-22): environment limits, recorded",
]

STD = ("", "ai.onnx")


def _op_from_message(msg):
    import re

    m = re.search(r"No Op registered for (\w+)", msg) or re.search(r"op_type:\s*(\w+), node name: node_(?!Loop|If|Scan)", msg)
    return m.group(1) if m else "?"


def schema_problems(model, requested):
    """Walks every node (graph, subgraphs, functions). Returns list of (facet, op_type, text)."""
    import onnx
    from onnx import defs

    probs = []
    imports = {o.domain: o.version for o in model.opset_import}
    declared = imports.get("", imports.get("ai.onnx"))
    if declared != requested:
        probs.append(("declared_version", "-", f"model declares default-domain opset {declared}, requested {requested}"))
    funcs = {(f.domain, f.name) for f in model.functions}
    max_known = defs.onnx_opset_version()

    def check_nodes(nodes, version, where):
        for n in nodes:
            for a in n.attribute:
                if a.type == onnx.AttributeProto.GRAPH:
                    check_nodes(a.g.node, version, where + "/" + n.op_type)
                elif a.type == onnx.AttributeProto.GRAPHS:
                    for g in a.graphs:
                        check_nodes(g.node, version, where + "/" + n.op_type)
            if n.domain not in STD:
                continue
            if version is None or version > max_known:
                continue
            try:
                sch = defs.get_schema(n.op_type, version, "")
            except Exception:
                probs.append(("schema", n.op_type, f"{where}: operator {n.op_type} does not exist at opset {version}"))
                continue
            nin = len(n.input)
            # trailing empty inputs count as omitted
            while nin and not n.input[nin - 1]:
                nin -= 1
            if nin < sch.min_input or nin > sch.max_input:
                probs.append(("arity", n.op_type, f"{where}: {n.op_type} has {nin} inputs, schema v{sch.since_version} allows {sch.min_input}..{sch.max_input}"))
            nout = len(n.output)
            if nout < sch.min_output and not (nout >= 1 and sch.min_output >= 1 and nout >= 1) or nout > sch.max_output:
                probs.append(("arity", n.op_type, f"{where}: {n.op_type} has {nout} outputs, schema allows {sch.min_output}..{sch.max_output}"))
            for a in n.attribute:
                if a.name not in sch.attributes:
                    probs.append(("attr", n.op_type, f"{where}: attribute {a.name!r} of {n.op_type} does not exist in schema v{sch.since_version} (opset {version})"))

    check_nodes(model.graph.node, declared, "graph")
    for f in model.functions:
        fimp = {o.domain: o.version for o in f.opset_import}
        fv = fimp.get("", fimp.get("ai.onnx"))
        if fv is not None and fv > requested:
            probs.append(("declared_version", "-", f"function {f.name} imports default-domain opset {fv} > requested {requested}"))
        check_nodes(f.node, fv if fv is not None else declared, f"function {f.name}")
    return probs


def _node_multiset(model):
    import collections

    c = collections.Counter()

    def walk(nodes):
        import onnx

        for n in nodes:
            c[n.op_type] += 1
            for a in n.attribute:
                if a.type == onnx.AttributeProto.GRAPH:
                    walk(a.g.node)
                elif a.type == onnx.AttributeProto.GRAPHS:
                    for g in a.graphs:
                        walk(g.node)

    walk(model.graph.node)
    for f in model.functions:
        walk(f.node)
    return c


def check_catalog(cid, opsets, acc=None):
    import onnx
    from onnx import defs
    from vf import catalog, jaxutil, onnxutil

    out = []
    case = catalog.by_id(cid)
    p = catalog.prepare(case) if case else None
    if p is None:
        return out
    kw0 = dict(p.kw)
    authored = kw0.pop("opset", None)
    sigbase = {"layer": "catalog", "component": f"{case['context']}/{case['component']}"}
    rng = np.random.default_rng(5)
    fds = catalog.feeds(p, rng, 3)
    base_out, base_ms = None, None
    try:
        base = jaxutil.to_onnx(p.fn, p.specs, **p.kw)
        base_ms = _node_multiset(base)
        if base.ByteSize() < 60_000_000:
            sess = onnxutil.session(base)
            base_out = sess.run(None, catalog.ort_feeds(p, sess, fds))
    except Exception:
        base_out = None
    for v in opsets:
        claimed = v >= 21
        try:
            m = jaxutil.to_onnx(p.fn, p.specs, opset=v, **kw0)
        except Exception as e:
            if acc:
                acc.tally("export", f"opset{v}:raised")
                acc.case()
            continue
        ms = _node_multiset(m)
        recent = False
        for op in ms:
            try:
                sv = defs.get_schema(op, min(v, defs.onnx_opset_version()), "").since_version
                recent = recent or (v - sv) <= 3
            except Exception:
                recent = True
        if acc:
            acc.case(key=("catalog", cid, v), nontrivial=claimed and (base_ms is None or ms != base_ms or recent))
            acc.tally("export", f"opset{v}:returned")
        probs = schema_problems(m, v)
        try:
            onnx.checker.check_model(m, full_check=True)
        except Exception as e:
            if isinstance(e, MemoryError) or not str(e).strip():
                # resource exhaustion under 16 parallel workers (large example models) says nothing about the model
                if acc:
                    acc.inconclusive += 1
                    acc.tally("environment_limits", "checker: empty message / MemoryError (inconclusive)")
            else:
                probs.append(("checker", _op_from_message(str(e)), str(e)[:250]))
        ort_ok = False
        if v <= 26 and m.ByteSize() < 60_000_000 and not probs:
            try:
                sess = onnxutil.session(m)
                ort_ok = True
            except Exception as e:
                msg = str(e)
                if "NOT_IMPLEMENTED" in msg or "Could not find an implementation" in msg or "under development" in msg:
                    if acc:
                        acc.tally("environment_limits", msg[:80])
                elif isinstance(e, MemoryError) or not msg.strip() or any(k in msg for k in ("bad allocation", "bad_alloc", "Failed to allocate")):
                    if acc:
                        acc.inconclusive += 1
                        acc.tally("environment_limits", "ort: empty message / allocation failure (inconclusive)")
                else:
                    probs.append(("ort", "?", msg[:250]))
            if ort_ok and base_out is not None and not case["tc"].get("skip_numeric_validation"):
                try:
                    got = sess.run(None, catalog.ort_feeds(p, sess, fds))
                    if len(got) != len(base_out):
                        probs.append(("numeric", "?", f"{len(got)} outputs vs {len(base_out)} at the default opset"))
                    else:
                        for a, b in zip(got, base_out):
                            a, b = np.asarray(a), np.asarray(b)
                            if a.shape != b.shape or a.dtype != b.dtype:
                                probs.append(("numeric", "?", f"output {a.dtype}{a.shape} vs default-opset {b.dtype}{b.shape}"))
                                break
                            if a.dtype.kind in "fc":
                                fin = np.isfinite(b)
                                if fin.any() and not np.allclose(a[fin], b[fin], rtol=1e-4, atol=1e-5 * max(1.0, float(np.abs(b[fin]).max()))):
                                    probs.append(("numeric", "?", "values differ from the default-opset export"))
                                    break
                            elif not np.array_equal(a, b):
                                probs.append(("numeric", "?", "values differ from the default-opset export"))
                                break
                except Exception as e:
                    if acc:
                        acc.tally("ort_run_errors", str(e)[:80])
        seen = set()
        for facet, op, text in probs:
            if (facet, op) in seen:
                continue
            seen.add((facet, op))
            v_ = {"sig": dict(sigbase, facet=facet, op_type=op, requested_opset=v, claimed=claimed), "case": {"kind": "catalog", "id": cid, "opsets": [v]},
                  "detail": f"opset {v}: {text}"}
            if claimed:
                out.append(v_)
            elif acc:
                acc.tally("unclaimed_opsets_13_20", f"{facet}:{op}")
    return out


def check_generated(kind, a, b, opsets, acc=None):
    import onnx
    from vf import jaxutil
    from vf.props import c03

    out = []
    for v in opsets:
        cfg = {"opset": v, "double": False, "names": False, "ir": False, "sym": bool(b) if kind == "cf" else False}
        try:
            fn, specs, kw = c03.build_generated(kind, a, b if kind != "cf" else False, cfg)
            m = jaxutil.to_onnx(fn, specs, **kw)
        except Exception:
            if acc:
                acc.tally("export", f"gen_opset{v}:raised")
                acc.case()
            continue
        if acc:
            acc.case(key=("gen", digest([kind, a, b]), v), nontrivial=True)
        probs = schema_problems(m, v)
        try:
            onnx.checker.check_model(m, full_check=True)
        except Exception as e:
            probs.append(("checker", "?", str(e)[:250]))
        seen = set()
        for facet, op, text in probs:
            if (facet, op) in seen:
                continue
            seen.add((facet, op))
            out.append({"sig": {"layer": "generated", "structure": kind, "facet": facet, "op_type": op, "requested_opset": v, "claimed": True},
                        "case": {"kind": "generated", "gk": kind, "a": a, "b": b, "opsets": [v]}, "detail": f"opset {v}: {text}"})
    return out


def check_placed(cid, placement, opsets, acc=None):
    """A registered single-input component lowered *inside* a control-flow body: nested contexts must honour the requested opset too."""
    import jax
    import jax.numpy as jnp
    import onnx
    from jax import lax
    from vf import catalog, jaxutil

    out = []
    case = catalog.by_id(cid)
    p = catalog.prepare(case) if case else None
    if p is None or len(p.shapes) != 1 or p.symbols or p.params or np.dtype(p.dtypes[0]).kind != "f" or p.kw.get("inputs_as_nchw") or p.kw.get("outputs_as_nchw"):
        return out
    f = p.fn
    try:
        es = jax.eval_shape(f, jax.ShapeDtypeStruct(tuple(p.shapes[0]), p.dtypes[0]))
        if any(np.dtype(l.dtype).kind == "c" for l in jax.tree_util.tree_leaves(es)):
            return out  # complex results use a packed representation at the model boundary: not placed inside bodies
    except Exception:
        return out
    if placement == "cond":
        fn = lambda x, pr: lax.cond(pr, lambda v: f(v), lambda v: f(v * 0.5), x)
    elif placement == "scan":
        fn = lambda x, pr: lax.scan(lambda c, _: (c, f(c)), x, None, length=2)[1]
    else:
        fn = lambda x, pr: lax.fori_loop(0, 2, lambda i, c: c, jax.tree_util.tree_leaves(f(x))[0])
    specs = [jax.ShapeDtypeStruct(tuple(p.shapes[0]), p.dtypes[0]), jax.ShapeDtypeStruct((), np.bool_)]
    sigbase = {"layer": "placed", "component": f"{case['context']}/{case['component']}", "placement": placement}
    for v in opsets:
        try:
            m = jaxutil.to_onnx(fn, specs, opset=v)
        except Exception:
            if acc:
                acc.tally("export", f"placed_opset{v}:raised")
                acc.case()
            continue
        if acc:
            acc.case(key=("placed", cid, placement, v), nontrivial=True)
            acc.tally("export", f"placed_opset{v}:returned")
        probs = schema_problems(m, v)
        try:
            onnx.checker.check_model(m, full_check=True)
        except Exception as e:
            probs.append(("checker", _op_from_message(str(e)), str(e)[:250]))
        seen = set()
        for facet, op, text in probs:
            if (facet, op) in seen:
                continue
            seen.add((facet, op))
            out.append({"sig": dict(sigbase, facet=facet, op_type=op, requested_opset=v, claimed=True), "case": {"kind": "placed", "id": cid, "placement": placement, "opsets": [v]},
                        "detail": f"opset {v}, inside {placement} body: {text}"})
    return out


def list_ids(_):
    from vf import catalog

    return [c["id"] for c in catalog.cases() if c["tc"].get("callable") is not None]


def plan(tier, seed):
    from vf import core

    res = list(core.run_pool("vf.props.c11", "list_ids", [{}], nproc=1))[0]
    if not res["ok"]:
        raise RuntimeError(res["tb"])
    ids = res["res"]
    rng = np.random.default_rng(seed)
    if tier == "quick":
        ids = [ids[i] for i in sorted(rng.choice(len(ids), size=min(200, len(ids)), replace=False).tolist())]
        opsets = [21, 23, 26, 27]
        if seed % 2:
            opsets = [22, 24, 25, 27]
        extra = [17]
        nsh, budget = 16, 150
    else:
        opsets = [21, 22, 23, 24, 25, 26, 27]
        extra = [13, 15, 17, 19, 20]
        nsh, budget = 64, 400
    shards = [{"kind": "catalog", "ids": ids[i::nsh], "opsets": opsets + extra, "budget_s": budget} for i in range(nsh)]
    # the same components lowered inside control-flow bodies, at the low end of the claimed range
    all_ids = res["res"]
    pids = all_ids if tier == "thorough" else [all_ids[i] for i in sorted(np.random.default_rng(seed + 1).choice(len(all_ids), size=min(320, len(all_ids)), replace=False).tolist())]
    shards += [{"kind": "placed", "ids": pids[i::nsh], "opsets": [21, 22] if tier == "quick" else [21, 22, 24, 26], "budget_s": budget} for i in range(nsh)]
    shards += [{"kind": "generated", "shard": i, "seed": seed, "examples": 6 if tier == "quick" else 40, "opsets": opsets} for i in range(8 if tier == "quick" else 32)]
    return shards


def work(sh):
    import time

    from vf import core

    acc = Acc()
    if sh["kind"] == "catalog":
        t0 = time.monotonic()
        for k, cid in enumerate(sh["ids"]):
            if time.monotonic() - t0 > sh["budget_s"]:
                acc.inconclusive += len(sh["ids"]) - k
                break
            t1 = time.monotonic()
            try:
                with core.time_limit(120):
                    vs = check_catalog(cid, sh["opsets"], acc)
            except core.CaseTimeout:
                acc.inconclusive += 1
                vs = []
            acc.timed(cid, time.monotonic() - t1)
            if not vs and len(acc.samples) < 1:
                acc.samples.append({"catalog_id": cid, "opsets": sh["opsets"]})
            for v in vs:
                acc.violation(v["sig"], v["case"], v["detail"])
    elif sh["kind"] == "placed":
        t0 = time.monotonic()
        for k, cid in enumerate(sh["ids"]):
            if time.monotonic() - t0 > sh["budget_s"]:
                acc.inconclusive += len(sh["ids"]) - k
                break
            placement = ["cond", "scan", "cond"][k % 3]
            try:
                with core.time_limit(90):
                    vs = check_placed(cid, placement, sh["opsets"], acc)
            except core.CaseTimeout:
                acc.inconclusive += 1
                vs = []
            for v in vs:
                acc.violation(v["sig"], v["case"], v["detail"])
        acc.samples.append({"structure": "component inside control-flow body", "ids": sh["ids"][:3], "opsets": sh["opsets"]})
    else:
        import hypothesis
        from hypothesis import HealthCheck, Phase, given, settings, strategies as st
        from vf import progen
        from vf.props import c06, c07

        @hypothesis.seed(derive_seed(sh["seed"], "c11gen", sh["shard"]))
        @settings(max_examples=sh["examples"], deadline=None, database=None, suppress_health_check=list(HealthCheck),
                  phases=[Phase.generate], report_multiple_bugs=False)
        @given(st.one_of(st.tuples(st.just("cf"), c06.body_strategy(2, unsupported_p=10**6), st.booleans()),
                         st.tuples(st.just("hist"), c07.history_strategy(), st.sampled_from(["fn", "uniq"])),
                         st.tuples(st.just("prog"), progen.programs(max_stmts=7), st.just(None))))
        def t(c):
            vs = check_generated(c[0], c[1], c[2], sh["opsets"], acc)
            if not vs and len(acc.samples) < 1:
                acc.samples.append({"structure": c[0], "opsets": sh["opsets"], "program": str(c[1])[:200]})
            for v in vs:
                acc.violation(v["sig"], v["case"], v["detail"])

        t()
    return acc.to_dict()


def replay(case):
    if case["kind"] == "catalog":
        return check_catalog(case["id"], case["opsets"], None)
    if case["kind"] == "placed":
        return check_placed(case["id"], case["placement"], case["opsets"], None)
    return check_generated(case["gk"], case["a"], case["b"], case["opsets"], None)
