import sys; sys.path.insert(0,'/tmp')
import jax, jax.numpy as jnp, numpy as np, onnx, os, tempfile, hashlib
from jax2onnx import to_onnx
import jitfix
import onnxruntime as ort
ort.set_default_logger_severity(4)
from flax import nnx
S=jax.ShapeDtypeStruct
run=lambda m,feeds: (lambda s: s.run(None,{i.name:f for i,f in zip(s.get_inputs(),feeds)}))(ort.InferenceSession(m.SerializeToString() if not isinstance(m,str) else m))
# C12
conv=nnx.Conv(3,4,(3,3),rngs=nnx.Rngs(0))
def f(x, y):
    h=conv(x); r=h+jnp.mean(h,axis=(1,2),keepdims=True); return r*y.mean(), jnp.transpose(h,(0,3,1,2)), h.sum(axis=3)
x=np.random.RandomState(0).randn(2,5,6,3).astype(np.float32); y=np.random.RandomState(1).randn(2,5,6,3).astype(np.float32)
plain=run(to_onnx(f,[(2,5,6,3),(2,5,6,3)]),[x,y])
for ins,outs in [([0],[0]),([0,1],[0,1]),([1],[1]),([],[0,1]),([0],[])]:
    try:
        m=to_onnx(f,[(2,5,6,3),(2,5,6,3)],inputs_as_nchw=ins or None,outputs_as_nchw=outs or None)
        feeds=[np.transpose(a,(0,3,1,2)) if i in ins else a for i,a in enumerate([x,y])]
        got=run(m,feeds)
        ok=all(np.allclose(np.transpose(p,(0,3,1,2)) if i in outs else p, g, atol=1e-5) for i,(p,g) in enumerate(zip(plain,got)))
        print("nchw",ins,outs,"OK" if ok else "MISMATCH",[n.op_type for n in m.graph.node].count("Transpose"))
    except Exception as e: print("nchw",ins,outs,"RAISES",type(e).__name__,str(e)[:100])
for bad in [dict(inputs_as_nchw=[2]),dict(outputs_as_nchw=[2]),dict(inputs_as_nchw=[0,0]),dict(outputs_as_nchw=[-1]),dict(inputs_as_nchw=[True])]:
    try: to_onnx(f,[(2,5,6,3),(2,5,6,3)],**bad); print(bad,"ACCEPTED")
    except Exception as e: print(bad,"rejected",type(e).__name__)
# C15
d=tempfile.mkdtemp()
big=np.random.RandomState(0).randn(600,600).astype(np.float32)   # 1.44MB > 1MiB
small=np.random.RandomState(0).randn(10,10).astype(np.float32)
def mk(w): return lambda x: x@w
for label,w,n in (("big",big,600),("small",small,10)):
    fn=mk(w); p=os.path.join(d,"m.onnx")
    proto=to_onnx(fn,[(2,n)])
    irm=to_onnx(fn,[(2,n)],return_mode="ir")
    import onnx_ir as ir
    ir_proto=ir.to_proto(irm)
    path=to_onnx(fn,[(2,n)],return_mode="file",output_path=p)
    print(label,"files:",sorted((f,os.path.getsize(os.path.join(d,f))) for f in os.listdir(d)))
    loaded=onnx.load(p)
    h=lambda m: hashlib.sha256(m.SerializeToString(deterministic=True)).hexdigest()[:12]
    print(label,"proto==ir:",h(proto)==h(ir_proto),"proto==file:",h(proto)==h(loaded))
    xin=np.random.RandomState(2).randn(2,n).astype(np.float32)
    print(label,"ort file==proto:",np.array_equal(run(p,[xin])[0],run(proto,[xin])[0]))
    pw=to_onnx(fn,[(2,n)],return_mode="file",output_path=p,export_mode="web")
    print(label,"web files:",sorted((f,os.path.getsize(os.path.join(d,f))) for f in os.listdir(d)), "web==proto", h(onnx.load(p))==h(proto))
# sequence: big standard, then small standard on same path
p2=os.path.join(d,"seq.onnx")
to_onnx(mk(big),[(2,600)],return_mode="file",output_path=p2); print("after big:",sorted((f,os.path.getsize(os.path.join(d,f))) for f in os.listdir(d) if f.startswith("seq")))
to_onnx(mk(big*2),[(2,600)],return_mode="file",output_path=p2); print("after big2:",sorted((f,os.path.getsize(os.path.join(d,f))) for f in os.listdir(d) if f.startswith("seq")))
xin=np.random.RandomState(2).randn(2,600).astype(np.float32)
print("big2 correct:", np.allclose(run(p2,[xin])[0], xin@(big*2), rtol=1e-4, atol=1e-3))
to_onnx(mk(small),[(2,10)],return_mode="file",output_path=p2); print("after small:",sorted((f,os.path.getsize(os.path.join(d,f))) for f in os.listdir(d) if f.startswith("seq")))
xs=np.random.RandomState(2).randn(2,10).astype(np.float32)
print("small correct:", np.allclose(run(p2,[xs])[0], xs@small, rtol=1e-4, atol=1e-4))
