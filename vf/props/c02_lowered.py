"""Layer B of C02: raw lowered models (captured with the export-time optimizer switched off) of generated JAX programs,
with generated intermediates promoted to extra graph outputs, pushed through the optimizer pass by pass.

Sources (all Hypothesis-generated, shared with the properties that own them):
  gen  - C03's structures: straight-line `progen` programs, control-flow bodies (C06 grammar), call-site histories of
         @onnx_function blocks (C07), and mixtures of both; opset / double precision / symbolic leading dim drawn;
  img  - C12's image programs (convolutions, pooling, NHWC<->NCHW transposes) with generated layout flags;
  mod  - C01's parametrised Flax/Equinox modules.
The optimizer is switched off by replacing `conversion_api.optimize_graph` with a no-op *in this process only* (no repo hook).
"""

from __future__ import annotations

import contextlib

import numpy as np
import onnx

from vf.core import derive_seed, digest


# passes that fire on nearly every raw model; a lowered case only counts as non-trivial when a pattern rewrite fired as well
HOUSEKEEPING = ("remove_dead_nodes", "prune_unused_graph_inputs", "propagate_elementwise_shapes", "propagate_unary_shapes")


@contextlib.contextmanager
def optimizer_off():
    from jax2onnx.converter import conversion_api as api

    orig = api.optimize_graph
    api.optimize_graph = lambda m: m
    try:
        yield
    finally:
        api.optimize_graph = orig


def source_strategy():
    from hypothesis import strategies as st
    from vf import blocks, progen
    from vf.props import c01, c06, c07, c12

    cfg = st.fixed_dictionaries({
        "opset": st.sampled_from([None, None, 21, 23, 25]),
        "double": st.sampled_from([False, False, True]),
        "names": st.just(False),
        "ir": st.just(False),
        "sym": st.booleans(),
    })

    def payload(kind):
        if kind == "prog":
            return st.tuples(st.just("gen"), st.tuples(st.tuples(st.just("prog"), progen.programs(max_stmts=8, n_outputs=(1, 3)), st.just(None)), cfg))
        if kind == "cf":
            return st.tuples(st.just("gen"), st.tuples(st.tuples(st.just("cf"), c06.body_strategy(3, unsupported_p=10**6), st.booleans()), cfg))
        if kind == "hist":
            return st.tuples(st.just("gen"), st.tuples(st.tuples(st.just("hist"), c07.history_strategy(), st.sampled_from(["fn", "uniq"])), cfg))
        if kind == "mixed":
            return st.tuples(st.just("gen"), st.tuples(st.tuples(st.just("mixed"), c06.body_strategy(2, unsupported_p=10**6),
                                                                 st.lists(blocks.site_strategy(), min_size=1, max_size=3)), cfg))
        if kind == "img":
            return st.tuples(st.just("img"), st.tuples(c12.prog_strategy(), st.lists(st.integers(0, 2), max_size=2, unique=True),
                                                       st.lists(st.integers(0, 2), max_size=2, unique=True), st.booleans()))
        return st.tuples(st.just("mod"), c01.module_strategy())

    # the kind is drawn first so every source gets its share whatever the size of its own grammar
    src = st.sampled_from(["prog", "prog", "cf", "hist", "mixed", "img", "img", "mod"]).flatmap(payload)
    return st.tuples(src, st.lists(st.integers(0, 10**6), max_size=3), st.integers(0, 2**31 - 1))


def export_raw(kind, payload):
    """Returns (raw ModelProto, label) or raises."""
    from vf import jaxutil

    if kind == "gen":
        from vf.props import c03

        (gk, a, b), cfg = payload
        cfg = dict(cfg, ir=False, names=False)
        fn, specs, kw = c03.build_generated(gk, a, b, cfg)
        with jaxutil.x64(cfg["double"]), optimizer_off():
            return jaxutil.to_onnx(fn, specs, **kw), gk
    if kind == "img":
        from vf.props import c12

        pg, in_idx, out_idx, want_flags = payload
        fn = c12.make_fn(pg)
        ins, outs = c12.io_desc(pg)
        import jax

        specs = [jax.ShapeDtypeStruct(tuple(s), np.float32) for s in ins]
        kw = {}
        if want_flags:
            ii = [i for i in in_idx if i < len(ins) and len(ins[i]) == 4]
            oo = [i for i in out_idx if i < len(outs) and outs[i] == 4]
            if ii:
                kw["inputs_as_nchw"] = ii
            if oo:
                kw["outputs_as_nchw"] = oo
        with optimizer_off():
            return jaxutil.to_onnx(fn, specs, **kw), "img"
    if kind == "mod":
        from vf.props import c01

        import jax

        fn, shape = c01.build_module(payload, 3)
        with optimizer_off():
            return jaxutil.to_onnx(fn, [jax.ShapeDtypeStruct(tuple(shape), np.float32)]), "mod:" + str(payload[0])
    raise ValueError(kind)


def promote(model, picks):
    """Adds up to len(picks) intermediates (top-level node outputs with an inferred tensor type) to graph.output."""
    if not picks:
        return model, []
    try:
        inf = onnx.shape_inference.infer_shapes(model)
    except Exception:
        return model, []
    produced = {o for n in model.graph.node for o in n.output if o}
    have = {o.name for o in model.graph.output}
    cands = [vi for vi in inf.graph.value_info if vi.name in produced and vi.name not in have and vi.type.tensor_type.elem_type]
    cands.sort(key=lambda v: v.name)
    if not cands:
        return model, []
    m = onnx.ModelProto()
    m.CopyFrom(model)
    names = []
    for p in picks:
        vi = cands[p % len(cands)]
        if vi.name in names:
            continue
        names.append(vi.name)
        m.graph.output.append(vi)
    return m, names


def make_feeds(model, seed, bind=2):
    from onnx import helper

    rng = np.random.default_rng(seed)
    init = {i.name for i in model.graph.initializer}
    feeds = {}
    for vi in model.graph.input:
        if vi.name in init:
            continue
        tt = vi.type.tensor_type
        shp = tuple(d.dim_value if d.HasField("dim_value") else bind for d in tt.shape.dim)
        dt = np.dtype(helper.tensor_dtype_to_np_dtype(tt.elem_type))
        if dt.kind == "f":
            a = rng.standard_normal(shp).astype(dt)
        elif dt.kind in "iu":
            a = rng.integers(0, 4, size=shp).astype(dt)
        elif dt == np.bool_:
            a = rng.random(shp) > 0.5
        else:
            a = rng.standard_normal(shp).astype(dt)
        feeds[vi.name] = np.asarray(a)
    return feeds


def check(kind, payload, picks, seed, acc=None):
    from vf.props import c02

    case = {"kind": "lowered", "source": kind, "payload": payload, "picks": picks, "seed": seed}
    try:
        raw, label = export_raw(kind, payload)
    except Exception as e:
        if acc:
            acc.tally("lowered_status", "export_raised")
            acc.tally("lowered_export_errors", f"{type(e).__name__}: {str(e)[:70]}")
            acc.case()
        return []
    model, promoted = promote(raw, picks)
    feeds = make_feeds(model, seed)
    res = c02.differential(model, feeds, function_bodies=True)
    if not res["valid"] and promoted:
        # a promoted value the raw model cannot expose (e.g. unknown rank): fall back to the export's own outputs
        model, promoted = raw, []
        res = c02.differential(model, feeds, function_bodies=True)
    if acc:
        if not res["valid"]:
            acc.tally("lowered_status", "raw_model_not_runnable")
            acc.tally("lowered_invalid_reasons", res.get("invalid_reason", "?")[:90])
            acc.case()
        else:
            acc.tally("lowered_status", "ok" if not res["violation"] else "violation")
            acc.tally("lowered_source", label)
            acc.tally("lowered_promoted", str(len(promoted)))
            for f in res["fired"]:
                acc.tally("lowered_pass_fired", f)
            rewrites = [f for f in res["fired"] if f.split(":")[-1] not in HOUSEKEEPING]
            acc.case(key=("lowered", digest([kind, payload]), tuple(promoted)), nontrivial=bool(rewrites))
            if res["fired"] and len(acc.samples) < 5 and not any(s.get("layer") == "lowered" and s.get("source") == label for s in acc.samples):
                acc.samples.append({"layer": "lowered", "source": label, "nodes": len(model.graph.node), "functions": len(model.functions),
                                    "promoted": promoted, "fired": res["fired"]})
    if res.get("violation"):
        v = res["violation"]
        sig = {"layer": "lowered", "pass": v["pass"], "kind": v["kind"], "source": label.split(":")[0], "promoted": bool(promoted),
               "stage": v.get("stage", "top")}
        return [{"sig": sig, "case": case, "detail": v["detail"] + f" | promoted={promoted}"}]
    return []


def work(sh, acc):
    import hypothesis
    from hypothesis import HealthCheck, Phase, given, settings

    @hypothesis.seed(derive_seed(sh["seed"], "c02lowered", sh["shard"]))
    @settings(max_examples=sh["examples"], deadline=None, database=None, suppress_health_check=list(HealthCheck),
              phases=[Phase.generate], report_multiple_bugs=False)
    @given(source_strategy())
    def t(c):
        (kind, payload), picks, seed = c
        for v in check(kind, payload, picks, seed, acc):
            acc.violation(v["sig"], v["case"], v["detail"])

    t()


def _tuplify(kind, payload):
    # JSON round trip turns tuples into lists; the builders index positionally, so lists are fine
    return payload


def replay(case):
    return check(case["source"], _tuplify(case["source"], case["payload"]), case.get("picks", []), case.get("seed", 0))


def shrink(v):
    """Fewer promoted outputs first (program shrinking is left to the owning property's grammar)."""
    case = dict(v["case"])
    target = (v["sig"]["pass"], v["sig"]["kind"])
    picks = list(case.get("picks", []))
    changed = True
    while changed and picks:
        changed = False
        for i in range(len(picks)):
            trial = picks[:i] + picks[i + 1:]
            r = check(case["source"], case["payload"], trial, case.get("seed", 0))
            if r and (r[0]["sig"]["pass"], r[0]["sig"]["kind"]) == target:
                picks, changed = trial, True
                v = r[0]
                break
    return v
