#!/bin/bash
# Offline setup: hypothesis into /venv if missing; jsonschema (+ optional atheris) into /verif/.deps.
cd "$(dirname "${BASH_SOURCE[0]}")/.." || exit 1
WH=/opt/veriftools/wheels
/venv/bin/python -c "import hypothesis" 2>/dev/null || /venv/bin/pip install -q --no-index --find-links $WH hypothesis || exit 1
mkdir -p .deps
PYTHONPATH=.deps /venv/bin/python -c "import jsonschema" 2>/dev/null || /venv/bin/pip install -q --no-index --find-links $WH --target .deps jsonschema || echo "jsonschema unavailable (built-in minimal validation is used)"
PYTHONPATH=.deps /venv/bin/python -c "import atheris" 2>/dev/null || /venv/bin/pip install -q --no-index --find-links $WH --target .deps atheris 2>/dev/null || echo "atheris unavailable (optional tier skipped)"
/venv/bin/python -m compileall -q vf >/dev/null 2>&1
/venv/bin/python -c "import hypothesis, jax, onnx, onnxruntime, onnx_ir; print('setup ok: hypothesis', hypothesis.__version__)"
