"""C13 — conversion leaves the host process as it found it (Hypothesis stateful machine, one process per shard)."""

from __future__ import annotations

import inspect
import os
import sys
import tempfile
import types

import numpy as np

from vf.core import Acc, derive_seed, digest

PROPERTY = "C13"
LEVEL = "exploration"
RULE = (
    "Hypothesis RuleBasedStateMachine per worker process. Rules: convert a generated program successfully (compositions, @onnx_function "
    "histories incl. nested, control-flow bodies; both precision flags; return modes proto/ir/file); convert a @jax.jit-decorated callable; convert "
    "with a failure injected at each stage: user exception during tracing, unknown primitive at top level / in a scan body / in a function body, "
    "unwritable output path, and fault injection into the patch stack (the binding specs of the k-th leaf plugin raise on enter, first or last "
    "position, generated k); call previously converted callables eagerly. Invariant after every rule: (1) identity snapshot of every non-dunder "
    "attribute of every loaded jax/flax/equinox/dm_pix/einops module and of the classes they define (MRO-resolved) equals the baseline taken "
    "after a warm-up conversion, _PATCH_STATE empty, no new attribute; (2) jax_enable_x64 unchanged; (3) user modules passed in are pytree-equal "
    "(structure and bytes) to a deep copy taken before; (4) behavioural probes: fixed jitted probe functions and every callable converted so far "
    "give bit-identical results (or the same exception type) as before the history. non-trivial = history with >=1 failing conversion or nested "
    "function body followed by >=1 probe; distinct by digest of the history prefix."
)
ASSUMPTIONS = [
    "attribute identity + a finite probe set observe the host state; state hidden inside C extensions is only seen through behaviour",
    "plugin discovery on the first conversion is a one-time import side effect: the baseline is taken after a warm-up conversion",
    "lazily imported submodules and lazily materialised dunders are ignored",
]

ROOTS = ("jax", "flax", "equinox", "dm_pix", "einops")


def snapshot():
    s = {}
    for n, m in list(sys.modules.items()):
        if m is None or n.split(".")[0] not in ROOTS:
            continue
        try:
            items = list(vars(m).items())
        except Exception:
            continue
        for k, v in items:
            if k.startswith("__") and k.endswith("__"):
                continue
            s[("mod", n, k)] = id(v)
            if inspect.isclass(v) and (getattr(v, "__module__", "") or "").split(".")[0] in ROOTS:
                cname = v.__module__ + "." + v.__qualname__
                for kk in dir(v):
                    if kk.startswith("__") and kk.endswith("__") and kk not in ("__call__", "__init__", "__getattr__", "__setattr__"):
                        continue
                    try:
                        vv = inspect.getattr_static(v, kk)  # MRO-resolved
                    except Exception:
                        continue
                    s[("cls", cname, kk)] = id(vv)
    return s


def diff(a, b):
    ch = [k for k in a if k in b and a[k] != b[k]]
    gone = [k for k in a if k not in b]
    new = []
    for k in b:
        if k in a:
            continue
        if k[0] == "mod" and (k[1] not in {x[1] for x in a if x[0] == "mod"}):
            continue  # a lazily imported module
        if k[0] == "mod" and isinstance(getattr(sys.modules.get(k[1]), k[2], None), types.ModuleType):
            continue  # a lazily imported submodule bound into its parent
        if k[0] == "cls" and not any(x[0] == "cls" and x[1] == k[1] for x in list(a)[:0]):
            pass
        new.append(k)
    # classes first seen now (defined by lazily imported modules) are not "new attributes"
    known_cls = {x[1] for x in a if x[0] == "cls"}
    new = [k for k in new if not (k[0] == "cls" and k[1] not in known_cls)]
    return ch, gone, new


class Boom(Exception):
    pass


def user_snapshot():
    """Identity of every attribute of the user-level module holding the @onnx_function targets and of its classes."""
    from vf import blocks

    s = {}
    for k, v in list(vars(blocks).items()):
        if k.startswith("__") and k.endswith("__"):
            continue
        s[("blocks", k)] = id(v)
        if inspect.isclass(v) and getattr(v, "__module__", "") == blocks.__name__:
            for kk, vv in list(vars(v).items()):
                if kk.startswith("__") and kk.endswith("__") and kk not in ("__call__", "__init__"):
                    continue
                s[("blocks." + k, kk)] = id(vv)
    return s


def _probes():
    import jax
    import jax.numpy as jnp
    from flax import nnx

    x = np.linspace(-2, 2, 12, dtype=np.float32).reshape(3, 4)
    lin = nnx.Linear(4, 3, rngs=nnx.Rngs(7))

    @jax.jit
    def p1(a):
        return jnp.tanh(a) @ a.T + jax.nn.softmax(a, axis=-1).sum()

    def p2(a):
        return jnp.einsum("ij,kj->ik", nnx.relu(a), a) + jnp.var(a)

    def p3(a):
        return lin(jnp.sin(a)) * jax.nn.gelu(a[:, :3])

    @jax.jit
    def p4(a):
        return jax.lax.fori_loop(0, 3, lambda i, c: c * 0.5 + jnp.cumsum(a, axis=1), a)

    return [("jit_tanh_softmax", p1, x), ("einsum_relu_var", p2, x), ("nnx_linear_gelu", p3, x), ("jit_fori_cumsum", p4, x)]


def _eval_probe(fn, x):
    import jax.numpy as jnp

    try:
        r = fn(jnp.asarray(x))
        return ("ok", np.asarray(r).tobytes())
    except Exception as e:
        return ("raised", type(e).__name__)


def _tree_bytes(obj):
    import jax

    try:
        from flax import nnx

        if isinstance(obj, nnx.Module):
            leaves, treedef = jax.tree_util.tree_flatten(nnx.state(obj))
            return str(treedef), [np.asarray(l).tobytes() for l in leaves]
    except Exception:
        pass
    leaves, treedef = jax.tree_util.tree_flatten(obj)
    return str(treedef), [np.asarray(l).tobytes() if hasattr(l, "shape") or isinstance(l, (int, float, bool)) else repr(l) for l in leaves]


def plan(tier, seed):
    n = 16 if tier == "quick" else 48
    return [{"kind": "machine", "shard": i, "seed": seed, "examples": 4 if tier == "quick" else 36, "steps": 7 if tier == "quick" else 10} for i in range(n)]


def work(sh):
    import hypothesis
    import jax
    import jax.numpy as jnp
    from hypothesis import HealthCheck, settings, strategies as st
    from hypothesis.stateful import RuleBasedStateMachine, rule, run_state_machine_as_test
    from flax import nnx
    from jax import lax
    import jax2onnx.plugins.plugin_system as ps
    from jax2onnx.plugins._patching import MonkeyPatchSpec
    from vf import blocks, jaxutil, progen
    from vf.props import c06, c16, c16_blocks  # noqa: F401  (registers the module-level function blocks before the baseline)

    acc = Acc()
    ps.import_all_plugins()
    # warm-up conversions (plugin discovery, lazy imports), then the baseline
    jaxutil.to_onnx(lambda x: jax.nn.softmax(nnx.relu(x)) @ x.T, [(3, 4)])
    jaxutil.to_onnx(blocks.build([["nnx", 0, 1.0, "tanh", 1.0], ["outer"], ["eqx", 0, 2], ["cls", 0, "add"]], "fn"), [(3, 4)])
    jaxutil.to_onnx(c06.make_fn(["scan_y", ["cond", "p", ["arith", "c+CONST"], ["arith", "c*0.5+k"]]], False),
                    [jax.ShapeDtypeStruct((3,), np.float32), jax.ShapeDtypeStruct((2, 3), np.float32), jax.ShapeDtypeStruct((), np.int32), jax.ShapeDtypeStruct((), np.bool_)])
    probes = _probes()
    probe_ref = {name: _eval_probe(fn, x) for name, fn, x in probes}
    state = {"base": snapshot(), "x64": bool(jax.config.jax_enable_x64)}
    leaf = [(n, p) for n, p in sorted(ps.PLUGIN_REGISTRY.items(), key=lambda kv: str(kv[0])) if isinstance(p, ps.PrimitiveLeafPlugin)]
    leaf = [(n, p) for n, p in leaf if _has_specs(p)]
    acc.stats["leaf_plugins_with_binding_specs"] = len(leaf)
    tmpdir = tempfile.mkdtemp(prefix="vf_c13_")

    def invariant(history, converted, user_objs, label):
        """Checks all four facets; returns list of (facet, detail)."""
        bad = []
        snap = snapshot()
        ch, gone, new = diff(state["base"], snap)
        if ch or gone or new:
            first = (ch + gone + new)[0]
            bad.append(("namespace", f"{len(ch)} changed, {len(gone)} gone, {len(new)} new; first: {first}"))
            state["base"] = snap  # re-baseline so that one leak is reported once
        if getattr(ps, "_PATCH_STATE", None):
            bad.append(("patch_state", f"_PATCH_STATE holds {len(ps._PATCH_STATE)} entries"))
        if bool(jax.config.jax_enable_x64) != state["x64"]:
            bad.append(("x64_flag", f"jax_enable_x64 is {jax.config.jax_enable_x64}"))
            jax.config.update("jax_enable_x64", state["x64"])
        for obj, before in user_objs:
            if _tree_bytes(obj) != before:
                bad.append(("model_mutation", f"user object {type(obj).__name__} changed"))
        for name, fn, x in probes:
            r = _eval_probe(fn, x)
            if r != probe_ref[name]:
                bad.append(("probe", f"probe {name}: {probe_ref[name][0]} -> {r[0]} {r[1] if r[0] == 'raised' else '(different bytes)'}"))
                probe_ref[name] = r
        for name, fn, x, ref in converted:
            r = _eval_probe(fn, x)
            if r != ref[0]:
                bad.append(("converted_callable", f"{name}: eager result changed after conversions: {ref[0][0]} -> {r[0]} {r[1] if r[0] == 'raised' else ''}"))
                ref[0] = r
        return bad

    class Host(RuleBasedStateMachine):
        def __init__(self):
            super().__init__()
            self.history = []
            self.converted = []
            self.user_objs = []
            self.had_failure = False
            self.had_nested = False
            self.user_ns = user_snapshot()

        def _after(self, label):
            self.history.append(label)
            bad = invariant(self.history, self.converted, self.user_objs, label)
            # user-level namespace (module of the decorated targets and their classes): only the rebind rule may change it
            us = user_snapshot()
            if not label.startswith("rebind_user_target") and getattr(self, "user_ns", None) is not None:
                chg = [k for k in self.user_ns if us.get(k) != self.user_ns[k]] + [k for k in us if k not in self.user_ns]
                if chg:
                    bad.append(("user_namespace", f"{len(chg)} attributes of the user's module/classes changed, first: {chg[0]}"))
            self.user_ns = us
            nt = self.had_failure or self.had_nested
            acc.case(key=digest(self.history), nontrivial=nt)
            acc.tally("rules", label.split(":")[0])
            for facet, detail in bad:
                acc.violation({"facet": facet, "after_rule": label.split(":")[0]}, {"kind": "history", "history": list(self.history)}, detail)

        @rule(prog=progen.programs(max_stmts=5), double=st.booleans(), mode=st.sampled_from(["proto", "ir", "file"]))
        def convert_program(self, prog, double, mode):
            fn = progen.build(prog)
            kw = {"enable_double_precision": double}
            if mode == "ir":
                kw["return_mode"] = "ir"
            if mode == "file":
                kw.update(return_mode="file", output_path=os.path.join(tmpdir, "m.onnx"))
            feeds = [np.asarray(f) for f in _feeds(prog)]
            before = _eval_probe(lambda *a: fn(*feeds), 0.0)
            try:
                jaxutil.to_onnx(fn, progen.input_specs_for_export(prog, double=double), **kw)
                ok = True
            except Exception:
                ok = False
                self.had_failure = True
            self.converted.append((f"program{len(self.converted)}", (lambda a, _fn=fn, _f=feeds: _fn(*_f)), 0.0, [before]))
            self._after(f"convert_program:{'ok' if ok else 'raised'}:{mode}:{'f64' if double else 'f32'}")

        @rule(history=st.lists(blocks.site_strategy(), min_size=1, max_size=4), variant=st.sampled_from(["fn", "uniq"]), double=st.booleans())
        def convert_functions(self, history, variant, double):
            insts = blocks.instances(history, variant)
            fn = blocks.build(history, variant, insts)
            for inst in insts:
                if inst is not None and hasattr(inst, "__dict__") or inst is not None:
                    try:
                        self.user_objs.append((inst, _tree_bytes(inst)))
                    except Exception:
                        pass
            x = np.linspace(-1, 1, 12, dtype=np.float32).reshape(3, 4)
            before = _eval_probe(fn, x)
            try:
                with jaxutil.x64(False):
                    jaxutil.to_onnx(fn, [jax.ShapeDtypeStruct((3, 4), np.float64 if double else np.float32)], enable_double_precision=double)
            except Exception:
                self.had_failure = True
            if any(s[0] == "outer" for s in history):
                self.had_nested = True
            self.converted.append((f"functions{len(self.converted)}", fn, x, [before]))
            self._after("convert_functions")

        @rule(which=st.sampled_from(["tanh", "var", "softmax_matmul"]), pre_called=st.booleans())
        def convert_jitted(self, which, pre_called):
            make = {"tanh": lambda: (lambda x: jnp.tanh(x) + 1.0), "var": lambda: (lambda x: jnp.var(x, axis=0) * jnp.sum(x)),
                    "softmax_matmul": lambda: (lambda x: jax.nn.softmax(x) @ x.T)}[which]
            f = jax.jit(make())
            x = np.linspace(-1, 1, 12, dtype=np.float32).reshape(3, 4)
            # the reference comes from a separate function object with the same code, evaluated before the export:
            # jit caches are keyed by the function object, so it cannot be influenced by converting `f`
            ref = _eval_probe(jax.jit(make()), x)
            if pre_called:
                _eval_probe(f, x)
            try:
                jaxutil.to_onnx(f, [(3, 4)])
            except Exception:
                self.had_failure = True
            self.converted.append((f"jitted_{which}{len(self.converted)}", f, x, [ref]))
            self._after(f"convert_jitted:{'called_before' if pre_called else 'first_call_after'}")

        @rule(stage=st.sampled_from(["trace_user_exception", "unknown_primitive_top", "unknown_primitive_scan", "unknown_primitive_function", "unwritable_path", "switch3_in_function"]),
              double=st.booleans())
        def convert_failing(self, stage, double):
            self.had_failure = True
            S = jax.ShapeDtypeStruct
            try:
                if stage == "trace_user_exception":
                    def boom(x):
                        jnp.sin(x)
                        raise RuntimeError("user error while tracing")

                    jaxutil.to_onnx(boom, [(3,)], enable_double_precision=double)
                elif stage == "unwritable_path":
                    jaxutil.to_onnx(lambda x: jnp.tanh(x), [(3,)], return_mode="file", output_path="/proc/nonexistent_dir/x/m.onnx", enable_double_precision=double)
                else:
                    construct, placement = {"unknown_primitive_top": ("unknown_primitive", "top"), "unknown_primitive_scan": ("unknown_primitive", "scan_body"),
                                            "unknown_primitive_function": ("unknown_primitive", "function_body"), "switch3_in_function": ("switch3", "function_body")}[stage]
                    fn = c16.make_unsupported(construct, placement)
                    jaxutil.to_onnx(fn, [S((3,), np.float32), S((), np.int32), S((), np.bool_)], enable_double_precision=double)
                raised = False
            except Exception:
                raised = True
            if stage.endswith("function"):
                self.had_nested = True
            self._after(f"convert_failing:{stage}:{'raised' if raised else 'returned'}")

        @rule(k=st.integers(0, max(0, len(leaf) - 1)), where=st.sampled_from(["first", "last"]), what=st.sampled_from(["make_value", "spec_list"]))
        def patch_stack_fault(self, k, where, what):
            self.had_failure = True
            name, p = leaf[k]
            cls = p.__class__
            specs = cls.binding_specs()
            orig_bs = cls.__dict__.get("binding_specs")

            def faulty(c, _specs=specs, _where=where):
                if what == "spec_list" and _where == "first":
                    raise Boom("binding_specs raised")
                out = list(_specs)

                def thrower(o):
                    raise Boom("make_value raised")

                boom = MonkeyPatchSpec(target="jax.numpy", attr="sin", make_value=thrower)
                return ([boom] + out) if _where == "first" else (out + [boom])

            cls.binding_specs = classmethod(faulty)
            try:
                try:
                    jaxutil.to_onnx(lambda x: jax.nn.softmax(nnx.relu(x)) @ x.T, [(3, 4)])
                    res = "no_raise"
                except Boom:
                    res = "raised"
                except Exception as e:
                    res = "other_" + type(e).__name__
            finally:
                if orig_bs is not None:
                    cls.binding_specs = orig_bs
                else:
                    try:
                        del cls.binding_specs
                    except AttributeError:
                        pass
            acc.tally("patch_fault_outcome", res)
            self._after(f"patch_stack_fault:{where}:{what}")

        @rule(which=st.sampled_from(["ClsFn", "NnxFn", "EqxFn", "ClsUniq"]))
        def rebind_user_target(self, which):
            """The user instruments a decorated class between conversions (wraps its __call__)."""
            import functools

            cls = getattr(blocks, which)
            orig = cls.__dict__.get("__call__") or cls.__call__

            @functools.wraps(orig)
            def counted_call(self_, *a, **k):
                return orig(self_, *a, **k)

            try:
                cls.__call__ = counted_call
            except Exception:
                pass
            self.had_nested = True
            self._after(f"rebind_user_target:{which}")

        @rule()
        def eager_calls(self):
            self._after("eager_calls")

        def teardown(self):
            if len(acc.samples) < 2 and self.history:
                acc.samples.append({"history": list(self.history)})

    run_state_machine_as_test(
        hypothesis.seed(derive_seed(sh["seed"], "c13", sh["shard"]))(Host),
        settings=settings(max_examples=sh["examples"], stateful_step_count=sh["steps"], deadline=None, database=None,
                          suppress_health_check=list(HealthCheck), report_multiple_bugs=False),
    )
    import shutil

    shutil.rmtree(tmpdir, ignore_errors=True)
    return acc.to_dict()


def _has_specs(p):
    try:
        return bool(p.__class__.binding_specs())
    except Exception:
        return False


def _feeds(prog):
    from vf import progen

    rng = np.random.default_rng(3)
    out = []
    for dt, shape in prog["inputs"]:
        if dt == progen.F:
            out.append((rng.standard_normal(tuple(shape))).astype(np.float32))
        elif dt == progen.I:
            out.append(rng.integers(-3, 5, size=tuple(shape)).astype(np.int32))
        else:
            out.append(rng.integers(0, 2, size=tuple(shape)).astype(np.bool_))
    return out


def replay(case):
    """Replays are histories of rule labels; the deterministic subset (jitted / failing conversions) is re-executed."""
    import jax
    import jax.numpy as jnp
    from vf import jaxutil

    out = []
    hist = case.get("history", [])
    if any(h.startswith("convert_jitted") for h in hist):
        f = jax.jit(lambda x: jnp.tanh(x) + 1.0)
        x = np.linspace(-1, 1, 12, dtype=np.float32).reshape(3, 4)
        try:
            jaxutil.to_onnx(f, [(3, 4)])
        except Exception:
            pass
        r = _eval_probe(f, x)
        if r[0] != "ok":
            out.append({"sig": {"facet": "converted_callable", "after_rule": "convert_jitted"}, "case": case, "detail": f"eager call after export: {r}"})
    return out
