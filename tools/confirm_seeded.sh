#!/bin/bash
# usage: tools/confirm_seeded.sh <worktree> <prop>   -- confirms every seeded/<slug> of a sub-agent's worktree:
#   demo passes on clean tree, fails with patch, full repo test-suite passes with patch. Writes <worktree>/seeded/<slug>/confirm.json
WT=$1; PROP=$2
cd "$WT" || exit 2
for d in seeded/*/; do
  slug=$(basename "$d")
  [ -f "$d/confirm.json" ] && continue
  git checkout -q -- jax2onnx 2>/dev/null
  PYTHONPATH=$WT JAX_PLATFORMS=cpu timeout 900 /venv/bin/python "$d/demo.py" > "$d/demo_clean.log" 2>&1; clean=$?
  if ! git apply "$d/patch.diff"; then echo "{\"slug\":\"$slug\",\"applies\":false}" > "$d/confirm.json"; continue; fi
  PYTHONPATH=$WT JAX_PLATFORMS=cpu timeout 900 /venv/bin/python "$d/demo.py" > "$d/demo_patched.log" 2>&1; patched=$?
  PYTHONPATH=$WT /venv/bin/python -m pytest -q -p no:cacheprovider --timeout=900 -x > "$d/suite_patched.log" 2>&1; suite=$?
  summary=$(tail -1 "$d/suite_patched.log" | tr -d '"')
  git checkout -q -- jax2onnx
  echo "{\"slug\":\"$slug\",\"property\":\"$PROP\",\"applies\":true,\"demo_exit_clean\":$clean,\"demo_exit_patched\":$patched,\"suite_exit_patched\":$suite,\"suite_summary\":\"$summary\"}" > "$d/confirm.json"
  cat "$d/confirm.json"
done
