import sys, os, warnings, collections, time
warnings.filterwarnings("ignore")
sys.path.insert(0,'/tmp/scratch_repo')
import numpy as np, jax, jax.numpy as jnp, onnx
import logging; logging.disable(logging.CRITICAL)
from jax2onnx import to_onnx
from hypothesis import given, settings, strategies as st, seed, HealthCheck, Phase
DT=[np.float32,np.float32,np.int32,np.int8,np.uint8,np.bool_,np.float16,np.int16,np.uint32]
SH=[(),(3,),(2,3),("B",3),("B","N"),(2,"N")]
OUT=st.one_of(st.tuples(st.just("in"),st.integers(0,2)), st.tuples(st.just("op"),st.sampled_from(["neg","dbl","sum","gt","cast_i32","cast_f16","shape0","argmax","cplx"]),st.integers(0,2)),
              st.tuples(st.just("const"),st.sampled_from(["f","i","b"])), st.tuples(st.just("dup"),))
def tree(leaves_n, draw):
    return draw(st.sampled_from(["tuple","list_in_tuple","dict","single" if leaves_n==1 else "tuple"]))
CLS={"b":"bool","i":"int","u":"int","f":"float","c":"complex"}
E=onnx.TensorProto
ONNX_CLS={E.BOOL:"bool",E.FLOAT:"float",E.DOUBLE:"float",E.FLOAT16:"float",E.BFLOAT16:"float"}
for t in (E.INT8,E.INT16,E.INT32,E.INT64,E.UINT8,E.UINT16,E.UINT32,E.UINT64): ONNX_CLS[t]="int"
BITS={E.INT8:8,E.INT16:16,E.INT32:32,E.INT64:64,E.UINT8:8,E.UINT16:16,E.UINT32:32,E.UINT64:64}
stats=collections.Counter(); fails={}
@seed(int(os.environ.get("VERIF_SEED","1")))
@settings(max_examples=int(sys.argv[1]), deadline=None, database=None, suppress_health_check=list(HealthCheck), phases=[Phase.generate])
@given(st.data())
def test(data):
    nin=data.draw(st.integers(1,3))
    ins=[(data.draw(st.sampled_from(SH)),data.draw(st.sampled_from(DT))) for _ in range(nin)]
    outs=data.draw(st.lists(OUT,min_size=1,max_size=4))
    layout=data.draw(st.sampled_from(["tuple","nested","dict"]))
    dbl=data.draw(st.booleans()); names=data.draw(st.sampled_from(["none","both","in_only","out_only"]))
    def fn(*xs):
        res=[]
        for o in outs:
            if o[0]=="in": res.append(xs[o[1]%nin])
            elif o[0]=="op":
                x=xs[o[2]%nin]; k=o[1]
                if k=="neg": res.append(jnp.logical_not(x) if x.dtype==jnp.bool_ else (-x if not jnp.issubdtype(x.dtype,jnp.unsignedinteger) else x+1))
                elif k=="dbl": res.append(x if x.dtype==jnp.bool_ else x*2)
                elif k=="sum": res.append(jnp.sum(x.astype(jnp.float32)))
                elif k=="gt": res.append(x.astype(jnp.float32)>0)
                elif k=="cast_i32": res.append(x.astype(jnp.int32))
                elif k=="cast_f16": res.append(x.astype(jnp.float16))
                elif k=="shape0": res.append(jnp.asarray(x.shape[0] if x.ndim else 1))
                elif k=="argmax": res.append(jnp.argmax(x.astype(jnp.float32)) if x.ndim else jnp.asarray(0))
                elif k=="cplx": res.append(jax.lax.complex(x.astype(jnp.float32),x.astype(jnp.float32)))
            elif o[0]=="const": res.append({"f":jnp.ones((2,)),"i":jnp.arange(3),"b":jnp.array([True,False])}[o[1]])
            else: res.append(res[-1] if res else xs[0])
        if layout=="tuple": return tuple(res)
        if layout=="nested": return (res[0],[res[1:]],{"z":res[-1]})
        return {f"k{i}":r for i,r in enumerate(res)}
    specs=[jax.ShapeDtypeStruct(s,d) for s,d in ins]
    kw={}
    if names in("both","in_only"): kw["input_names"]=[f"arg{i}" for i in range(nin)]
    # expected via eval_shape under the right x64 mode
    from jax import export as jex
    try:
        jax.config.update("jax_enable_x64",dbl)
        symnames=sorted({d for s,_ in ins for d in s if isinstance(d,str)})
        scope=jex.SymbolicScope(); symmap={n:jex.symbolic_shape(n,scope=scope)[0] for n in symnames}
        es=jax.eval_shape(fn,*[jax.ShapeDtypeStruct(tuple(symmap.get(d,d) for d in s),dt) for s,dt in ins])
        exp=jax.tree_util.tree_leaves(es)
    except Exception as e: stats["jax_rejects"]+=1; return
    finally: jax.config.update("jax_enable_x64",False)
    if names in("both","out_only"): kw["output_names"]=[f"res{i}" for i in range(len(exp))]
    try: m=to_onnx(fn,specs,enable_double_precision=dbl,**kw)
    except Exception as e:
        stats["rejected:"+type(e).__name__]+=1; fails.setdefault(("rejected",type(e).__name__,str(e)[:70]),(ins,outs,layout,dbl,names)); return
    P=[]
    gi,go=list(m.graph.input),list(m.graph.output)
    if len(gi)!=nin: P.append(("input_count",len(gi),nin))
    if len(go)!=len(exp): P.append(("output_count",len(go),len(exp)))
    if "input_names" in kw and [i.name for i in gi]!=kw["input_names"]: P.append(("input_names",[i.name for i in gi]))
    if "output_names" in kw and [o.name for o in go]!=kw["output_names"]: P.append(("output_names",[o.name for o in go]))
    if "input_names" not in kw and [i.name for i in gi]!=[f"in_{i}" for i in range(nin)]: P.append(("default_input_names",[i.name for i in gi]))
    for i,(v,(s,dt)) in enumerate(zip(gi,ins)):
        tt=v.type.tensor_type; dims=[d.dim_param or d.dim_value for d in tt.shape.dim]
        if len(dims)!=len(s): P.append(("in_rank",i)); continue
        for a,b in zip(dims,s):
            if isinstance(b,int) and a!=b: P.append(("in_dim",i,a,b))
            if isinstance(b,str) and a!=b: P.append(("in_symbol",i,a,b))
        if ONNX_CLS.get(tt.elem_type)!=CLS[np.dtype(dt).kind]: P.append(("in_class",i,tt.elem_type,str(dt)))
    for i,(v,e) in enumerate(zip(go,exp)):
        tt=v.type.tensor_type; dims=[d.dim_param or d.dim_value for d in tt.shape.dim]; k=np.dtype(e.dtype).kind
        eshape=tuple(e.shape)+((2,) if k=="c" else ())
        if len(dims)!=len(eshape): P.append(("out_rank",i,dims,str(eshape))); continue
        for a,b in zip(dims,eshape):
            if isinstance(b,int) and a!=b: P.append(("out_dim",i,a,b))
        want="float" if k=="c" else CLS[k]
        if ONNX_CLS.get(tt.elem_type)!=want: P.append(("out_class",i,tt.elem_type,str(e.dtype)))
        if k=="f":
            ed=np.dtype(e.dtype)
            if not dbl and tt.elem_type==E.DOUBLE: P.append(("double_in_single",i))
            if ed==np.float16 and tt.elem_type!=E.FLOAT16: P.append(("f16_not_kept",i,tt.elem_type))
            if dbl and ed==np.float64 and tt.elem_type!=E.DOUBLE: P.append(("f64_not_double",i,tt.elem_type))
        if k in "iu":
            if tt.elem_type!=E.INT64 and BITS.get(tt.elem_type)!=np.dtype(e.dtype).itemsize*8: P.append(("int_width",i,tt.elem_type,str(e.dtype)))
            if tt.elem_type!=E.INT64 and (tt.elem_type in (E.UINT8,E.UINT16,E.UINT32,E.UINT64))!=(k=="u"): P.append(("int_sign",i,tt.elem_type,str(e.dtype)))
    allnames=[v.name for v in gi]+[v.name for v in go]
    if P:
        stats["VIOLATION"]+=1; fails.setdefault(P[0][:1],(P[:3],ins,outs,layout,dbl,names))
    else: stats["ok"]+=1
T0=time.time(); test(); print(round(time.time()-T0,1),dict(stats))
for k,v in fails.items(): print("  ",k,str(v)[:460])
