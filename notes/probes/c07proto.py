import sys, os, warnings, collections, json, time
warnings.filterwarnings("ignore")
sys.path.insert(0,'/tmp/scratch_repo'); sys.path.insert(0,'/tmp/scratch')
import numpy as np, jax, jax.numpy as jnp, onnx
import logging; logging.disable(logging.CRITICAL)
from jax2onnx import to_onnx
import c07blocks as B
import onnxruntime as ort
ort.set_default_logger_severity(4)
from hypothesis import given, settings, strategies as st, seed, HealthCheck, Phase
site=st.one_of(
  st.tuples(st.just("nnx"),st.integers(0,1),st.sampled_from([1.0,2.0]),st.sampled_from(["tanh","relu"]),st.sampled_from([1.0,3.0])),
  st.tuples(st.just("eqx"),st.integers(0,1),st.integers(1,2)),
  st.tuples(st.just("fn"),st.sampled_from([1.0,2.0,-1.0])),
  st.tuples(st.just("outer"),))
stats=collections.Counter(); fails={}
def build(history, variant):
    """variant in plain/fn/uniq ; returns callable and list of semantic class ids per call site"""
    insts=[]
    for s in history:
        if s[0]=="nnx": cls={"plain":B.NnxPlain,"fn":B.NnxFn,"uniq":B.NnxUniq}[variant]; insts.append(cls(s[1],s[2],s[3]))
        elif s[0]=="eqx":
            cls={"plain":B.EqxPlain,"fn":B.EqxFn,"uniq":B.EqxUniq}[variant]
            w=jnp.asarray(np.random.RandomState(s[1]).randn(4,4).astype(np.float32)*0.3); insts.append(cls(w,s[2]))
        else: insts.append(None)
    def fn(x):
        acc=x
        for s,inst in zip(history,insts):
            if s[0]=="nnx": acc=acc+inst(acc,gain=s[4])
            elif s[0]=="eqx": acc=acc*0.5+inst(acc)
            elif s[0]=="fn": acc={"plain":B.f_plain,"fn":B.f_fn,"uniq":B.f_uniq}[variant](acc,k=s[1])
            else: acc=(B.outer_plain if variant=="plain" else B.outer_fn)(acc)
        return acc
    return fn
@seed(int(os.environ.get("VERIF_SEED","1")))
@settings(max_examples=int(sys.argv[1]), deadline=None, database=None, suppress_health_check=list(HealthCheck), phases=[Phase.generate])
@given(st.lists(site,min_size=2,max_size=5), st.sampled_from(["fn","uniq"]), st.booleans())
def test(history,variant,sym):
    spec=[("B",4)] if sym else [(3,4)]
    x=np.random.RandomState(1).randn(5 if sym else 3,4).astype(np.float32)
    fp=build(history,"plain"); fd=build(history,variant)
    exp=np.asarray(fp(jnp.asarray(x)))
    try: mp=to_onnx(fp,spec)
    except Exception as e: stats["plain_rejected"]+=1; return
    try: md=to_onnx(fd,spec)
    except Exception as e: stats["decorated_rejected:"+type(e).__name__]+=1; fails.setdefault(("rej",str(e)[:80]),history); return
    run=lambda m:(lambda s:s.run(None,{s.get_inputs()[0].name:x})[0])(ort.InferenceSession(m.SerializeToString()))
    gp,gd=run(mp),run(md)
    tol=dict(rtol=2e-4,atol=2e-5*max(1,np.abs(exp).max()))
    if not (np.allclose(gd,gp,**tol) and np.allclose(gd,exp,**tol)):
        stats["NUMERIC_VIOLATION"]+=1; fails.setdefault(("numeric",variant),history); return
    # sharing soundness
    defs={(f.domain,f.name):f for f in md.functions}
    calls=[n for n in md.graph.node if (n.domain,n.op_type) in defs]
    for n in calls:
        f=defs[(n.domain,n.op_type)]
        if len(n.input)!=len(f.input) or len(n.output)!=len(f.output): stats["ARITY_VIOLATION"]+=1; fails.setdefault(("arity",),history); return
    # top-level call sites appear in order of history (CSE may merge identical consecutive ones only if same inputs) -> check count of distinct defs >= distinct semantic classes at top-level
    classes=set()
    for s in history: classes.add(s if s[0]!="nnx" else s)   # all fields are distinguishing
    top_defs={(n.domain,n.op_type) for n in calls}
    if len(top_defs)<len(classes): stats["SHARING_VIOLATION"]+=1; fails.setdefault(("sharing",variant),(history,len(top_defs),len(classes))); return
    stats["ok"]+=1; stats["sites"]+=len(history); stats["distinct_classes"]+=len(classes); stats["defs"]+=len(md.functions)
    if len(classes)<len(history): stats["histories_with_repeat_class"]+=1
T0=time.time(); test(); print(round(time.time()-T0,1),dict(stats))
for k,v in fails.items(): print("  ",k,v)
