import sys, warnings, inspect, collections, functools
warnings.filterwarnings("ignore")
sys.path.insert(0,'/tmp/scratch_repo')
import numpy as np, jax, jax.numpy as jnp
import logging; logging.disable(logging.CRITICAL)
from jax2onnx import to_onnx
import jax2onnx.plugins.plugin_system as ps
import jax2onnx.plugins._patching as pt
from jax2onnx.plugins._patching import MonkeyPatchSpec, _resolve
import onnxruntime as ort
ort.set_default_logger_severity(4)
ps.import_all_plugins()
REC=collections.defaultdict(list)
orig_apply=pt.apply_patches
from contextlib import contextmanager
@contextmanager
def rec_apply(specs):
    new=[]
    for s in specs:
        if isinstance(s,MonkeyPatchSpec):
            tgt=_resolve(s.target); qn=f"{getattr(tgt,'__name__',tgt)}.{s.attr}"
            def mk(orig,_mv=s.make_value,_qn=qn):
                sub=_mv(orig)
                if not callable(sub): return sub
                @functools.wraps(sub)
                def w(*a,**k):
                    if len(REC[_qn])<3: REC[_qn].append((a,k))
                    return sub(*a,**k)
                return w
            new.append(MonkeyPatchSpec(s.target,s.attr,mk,s.delete_if_missing))
        else: new.append(s)
    with orig_apply(new): yield
ps.apply_patches=rec_apply
# run a slice of jnp/nn testcases to record calls
n=0
for name,pl in sorted(ps.PLUGIN_REGISTRY.items()):
    md=getattr(pl,'metadata',None)
    if not md or not name.startswith(("jax.numpy.","jax.nn.")): continue
    for tc in md.get("testcases",[])[:2]:
        fn=tc.get("callable")
        if getattr(fn,"__jax2onnx_factory__",False): continue
        shapes=tc.get("input_shapes"); dts=tc.get("input_dtypes"); vals=tc.get("input_values")
        if shapes is not None: specs=[jax.ShapeDtypeStruct(tuple(s),d) for s,d in zip(shapes,dts)] if dts else [tuple(s) for s in shapes]
        elif vals is not None: specs=[jax.ShapeDtypeStruct(np.asarray(v).shape, np.float32 if np.asarray(v).dtype==np.float64 else (np.int32 if np.asarray(v).dtype==np.int64 else np.asarray(v).dtype)) for v in vals]
        else: specs=[]
        try: to_onnx(fn,specs); n+=1
        except Exception as e: pass
ps.apply_patches=orig_apply
print("conversions:",n,"substitutes with recorded calls:",len(REC))
# For recorded calls whose args are tracers: build call-form variants and test export of single-call programs
def is_tr(x): return hasattr(x,"aval")
results=collections.Counter(); viol=[]
for qn,calls in sorted(REC.items()):
    mod,attr=qn.rsplit(".",1)
    try: orig=getattr(sys.modules[mod],attr)
    except Exception: results["no_orig"]+=1; continue
    try: sig=inspect.signature(orig)
    except Exception: results["no_sig"]+=1; continue
    a,k=calls[0]
    # only handle calls where tracers appear as top-level positional args
    if any(isinstance(x,(list,tuple,dict)) and any(is_tr(y) for y in jax.tree_util.tree_leaves(x)) for x in list(a)+list(k.values())): results["nested_tracers"]+=1; continue
    try: ba=sig.bind(*a,**k)
    except TypeError: results["recorded_not_bindable_by_orig"]+=1; continue
    tr_names=[n_ for n_,v in ba.arguments.items() if is_tr(v)]
    if not tr_names: results["no_tracer_args"]+=1; continue
    avals={n_:ba.arguments[n_].aval for n_ in tr_names}
    static={n_:v for n_,v in ba.arguments.items() if not is_tr(v)}
    params=sig.parameters
    if any(params[n_].kind in (inspect.Parameter.VAR_POSITIONAL,inspect.Parameter.VAR_KEYWORD) for n_ in ba.arguments): results["varargs"]+=1; continue
    # forms: all-keyword (where allowed), and explicit defaults added by keyword
    def make_prog(form):
        def prog(*xs):
            vals=dict(static); vals.update(dict(zip(tr_names,xs)))
            if form=="all_kw":
                pos=[vals[n_] for n_ in vals if params[n_].kind==inspect.Parameter.POSITIONAL_ONLY]
                kw={n_:v for n_,v in vals.items() if params[n_].kind!=inspect.Parameter.POSITIONAL_ONLY}
                return getattr(sys.modules[mod],attr)(*pos,**kw)
            if form=="explicit_defaults":
                kw={n_:p.default for n_,p in params.items() if p.default is not inspect.Parameter.empty and n_ not in vals and p.kind in (p.POSITIONAL_OR_KEYWORD,p.KEYWORD_ONLY)}
                pos=[vals[n_] for n_ in vals if params[n_].kind!=inspect.Parameter.KEYWORD_ONLY]
                kw.update({n_:v for n_,v in vals.items() if params[n_].kind==inspect.Parameter.KEYWORD_ONLY})
                return getattr(sys.modules[mod],attr)(*pos,**kw)
            if form=="all_pos":
                order=[n_ for n_ in params if n_ in vals]
                if any(params[n_].kind==inspect.Parameter.KEYWORD_ONLY for n_ in order): raise LookupError
                # need contiguous prefix
                names=list(params); last=max(names.index(n_) for n_ in order)
                pos=[]
                for n_ in names[:last+1]:
                    if n_ in vals: pos.append(vals[n_])
                    elif params[n_].default is not inspect.Parameter.empty: pos.append(params[n_].default)
                    else: raise LookupError
                return getattr(sys.modules[mod],attr)(*pos)
        return prog
    specs=[jax.ShapeDtypeStruct(avals[n_].shape,avals[n_].dtype) for n_ in tr_names]
    if any(not all(isinstance(d,int) for d in s.shape) for s in specs): results["symbolic_skip"]+=1; continue
    rng=np.random.default_rng(0)
    feeds=[(rng.standard_normal(s.shape)*1.5).astype(s.dtype) if np.dtype(s.dtype).kind=='f' else (rng.integers(0,3,s.shape).astype(s.dtype) if np.dtype(s.dtype).kind in 'iu' else (rng.random(s.shape)>0.5)) for s in specs]
    for form in ("all_kw","explicit_defaults","all_pos"):
        prog=make_prog(form)
        try: exp=prog(*[jnp.asarray(f) for f in feeds])
        except LookupError: results[form+":n/a"]+=1; continue
        except Exception as e: results[form+":orig_rejects"]+=1; continue
        try: m=to_onnx(prog,specs)
        except TypeError as e:
            msg=str(e)
            if any(t in msg for t in ("unexpected keyword","positional argument","missing","multiple values")):
                results[form+":BIND_FAILURE"]+=1; viol.append((qn,form,msg[:90])); continue
            results[form+":raises_other"]+=1; continue
        except Exception as e: results[form+":raises_other"]+=1; continue
        try:
            s_=ort.InferenceSession(m.SerializeToString()); got=s_.run(None,{i.name:f for i,f in zip(s_.get_inputs(),feeds)})
            ex=[np.asarray(l) for l in jax.tree_util.tree_leaves(exp)]
            ok=len(got)==len(ex) and all(g.shape==e.shape and np.allclose(g,e,rtol=1e-3,atol=1e-4,equal_nan=True) for g,e in zip(got,ex))
            results[form+(":ok" if ok else ":WRONG_RESULT")]+=1
            if not ok: viol.append((qn,form,"wrong result"))
        except Exception as e: results[form+":ort_error"]+=1
for k,v in sorted(results.items()): print(v,k)
for v in viol[:40]: print(v)
