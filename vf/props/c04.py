"""C04 — symbolic-shape exports are correct for every binding of the symbols.

(1) dimension-expression grammar (two symbols; sums, products, powers, //, %, max, min; polynomial
    skeletons with repeated sub-terms in different roles) returned as values and used as reshape /
    arange / broadcast targets;  (2) progen programs with a symbolic leading dim;  (3) catalog entries
    with string dims.  One export, then a binding lattice; oracle = eager JAX on concrete arrays.
"""

from __future__ import annotations

import itertools

import numpy as np

from vf.core import Acc, derive_seed, digest

PROPERTY = "C04"
LEVEL = "exploration"
RULE = (
    "one export per program with named dims, then every binding of a lattice: symbols in {1,2,3,5,7,16} (all pairs for two symbols: equal, "
    "unequal, size-1, larger than any test). Programs: (1) Hypothesis dimension-expression trees over B,N (depth<=3; +,-,*,//,%,max,min,square; "
    "polynomial skeletons c*B^p*N^q with repeated sub-terms) returned as values and used as reshape/arange/broadcast targets; (2) generated "
    "compositions with symbolic leading dims; (3) registered testcases that declare string dims. Oracle: eager JAX on concrete inputs of the bound "
    "size: runtime shapes equal, integer dimension results exact, floats per the C01 policy. non-trivial = binding other than all-2/all-3 on a "
    "program whose export mentions a symbol; distinct by (program digest, binding)."
)
ASSUMPTIONS = [
    "eager JAX on concrete shapes is the reference for what a symbolic program means at a binding",
    "bindings where JAX itself rejects the concrete shapes (e.g. negative reshape target) are skipped",
    "exports rejected loudly (e.g. reshape to (B*N, ...) 'requires mapping to input axes') are counted, not violations",
]

LATTICE = [1, 2, 3, 5, 7, 16]
PAIRS = [(1, 1), (1, 3), (3, 1), (2, 2), (2, 3), (3, 2), (5, 7), (7, 5), (16, 1), (1, 16), (5, 5), (7, 2), (3, 3), (16, 16)]


# ------------------------------------------------------------------ dimension expressions


def dexpr_strategy():
    from hypothesis import strategies as st

    leaf = st.sampled_from([["B"], ["N"], ["c", 1], ["c", 2], ["c", 3], ["c", 5]])

    def rec(depth):
        if depth == 0:
            return leaf
        sub = rec(depth - 1)
        return st.one_of(
            leaf,
            st.tuples(st.sampled_from(["+", "-", "*"]), sub, sub).map(list),
            st.tuples(st.sampled_from(["//", "%"]), sub, st.sampled_from([["c", 2], ["c", 3], ["c", 4]])).map(list),
            st.tuples(st.sampled_from(["max", "min"]), sub, sub).map(list),
            st.tuples(st.just("sq"), sub).map(list),
        )

    # polynomial skeleton: sum of c * B^p * N^q, biased to the same monomial appearing as power and as coefficient
    mono = st.tuples(st.integers(1, 3), st.integers(0, 3), st.integers(0, 2)).map(list)
    poly = st.lists(mono, min_size=2, max_size=4).map(lambda ms: ["poly", ms])
    return st.one_of(rec(3), rec(2), poly)


def dexpr_eval(e, env, mx, mn):
    t = e[0]
    if t in ("B", "N"):
        return env[t]
    if t == "c":
        return e[1]
    if t == "sq":
        v = dexpr_eval(e[1], env, mx, mn)
        return v * v
    if t == "poly":
        tot = 0
        for c, p, q in e[1]:
            term = c
            for _ in range(p):
                term = term * env["B"]
            for _ in range(q):
                term = term * env["N"]
            tot = tot + term
        return tot
    a = dexpr_eval(e[1], env, mx, mn)
    b = dexpr_eval(e[2], env, mx, mn)
    if t == "+":
        return a + b
    if t == "-":
        return a - b
    if t == "*":
        return a * b
    if t == "//":
        return a // b
    if t == "%":
        return a % b
    if t == "max":
        return mx(a, b)
    if t == "min":
        return mn(a, b)
    raise KeyError(t)


def dexpr_show(e):
    t = e[0]
    if t in ("B", "N"):
        return t
    if t == "c":
        return str(e[1])
    if t == "sq":
        return f"({dexpr_show(e[1])})**2"
    if t == "poly":
        return "+".join(f"{c}*B^{p}*N^{q}" for c, p, q in e[1])
    if t in ("max", "min"):
        return f"{t}({dexpr_show(e[1])},{dexpr_show(e[2])})"
    return f"({dexpr_show(e[1])}{t}{dexpr_show(e[2])})"


def dexpr_uses(e, s):
    if e[0] == "poly":
        return any((p > 0 if s == "B" else q > 0) for _, p, q in e[1])
    return e[0] == s or any(isinstance(x, list) and dexpr_uses(x, s) for x in e[1:])


def dexpr_skeleton(e):
    t = e[0]
    if t in ("B", "N"):
        return "s"
    if t == "c":
        return "c"
    if t == "poly":
        return "poly"
    if t == "sq":
        return f"sq({dexpr_skeleton(e[1])})"
    return f"{t}({dexpr_skeleton(e[1])},{dexpr_skeleton(e[2])})"


def make_dim_fn(es, use):
    import jax.numpy as jnp
    from jax import core

    def fn_img(x):
        # symbolic height/width of an image input that is exposed in NCHW layout (inputs_as_nchw)
        env = {"B": x.shape[1], "N": x.shape[2]}
        mx = lambda a, b: core.max_dim(a, b) if not (isinstance(a, int) and isinstance(b, int)) else max(a, b)
        mn = lambda a, b: core.min_dim(a, b) if not (isinstance(a, int) and isinstance(b, int)) else min(a, b)
        outs = [jnp.asarray(dexpr_eval(e, env, mx, mn)) for e in es]
        if use == "nchw_bcast":
            outs.append(jnp.broadcast_to(x.sum(axis=(0, 2, 3))[:, None], (x.shape[1], 3)) + 1.0)
        else:
            outs.append(x.sum(axis=(1, 2)))
        return tuple(outs)

    if use.startswith("nchw"):
        return fn_img

    flags = use.split("@")[1:]
    use = use.split("@")[0]
    y_transposed = "yT" in flags  # the second input arrives as (3, N): N lives on axis 1 of its tensor
    use_first = "F" in flags      # the shape-consuming computation is traced before the dimension values are materialised

    def fn(x, y):
        ny = y.shape[1] if y_transposed else y.shape[0]  # read from the input itself, so that N's origin is axis 1 of in_1
        Y = (lambda: jnp.transpose(y)) if y_transposed else (lambda: y)  # only the uses that read y's data transpose it
        env = {"B": x.shape[0], "N": ny}
        mx = lambda a, b: core.max_dim(a, b) if not (isinstance(a, int) and isinstance(b, int)) else max(a, b)
        mn = lambda a, b: core.min_dim(a, b) if not (isinstance(a, int) and isinstance(b, int)) else min(a, b)
        def dim_outputs():
            return [jnp.asarray(dexpr_eval(e, env, mx, mn)) for e in es]

        pre = None if use_first else dim_outputs()
        outs = []
        if use == "reshape":
            outs.append(jnp.reshape(x[:, None, :] * Y()[None, :, :], (x.shape[0] * ny, 3)).sum(axis=1))
        elif use == "arange":
            outs.append(jnp.arange(x.shape[0] + ny) * 2)
        elif use == "broadcast":
            outs.append(jnp.broadcast_to(x.sum(axis=1)[:, None], (x.shape[0], ny)))
        elif use == "outer":
            outs.append(x[:, None, :] * Y()[None, :, :])
        elif use == "flatten":
            outs.append(jnp.reshape(x, (-1,)) * 2.0)
        elif use == "concat":
            outs.append(jnp.concatenate([x, Y()], axis=0))
        elif use == "zeros":
            outs.append(jnp.zeros((x.shape[0], 2)) + x[:, :2])
        # reshapes whose operand extent is a *derived* dimension (2*B, B+N): the target symbols are not dims of the operand
        elif use == "concat_split":
            outs.append(jnp.concatenate([x, x * 2.0], axis=0).reshape(2, x.shape[0], 3))
        elif use == "stack_merge":
            outs.append(jnp.stack([x, x * 2.0]).reshape(2 * x.shape[0], 3))
        elif use == "tile_split":
            outs.append(jnp.tile(x, (2, 1)).reshape(2, x.shape[0], 3)[1])
        elif use == "concat_xy_reshape":
            outs.append(jnp.concatenate([x, Y()], axis=0).reshape(x.shape[0] + ny, 3, 1))
        elif use == "concat_cols_split":
            outs.append(jnp.concatenate([x, x], axis=1).reshape(x.shape[0], 2, 3))
        # shape vectors made of several symbols that originate from different tensors
        elif use == "iota2":
            from jax import lax

            outs.append(lax.broadcasted_iota(jnp.int32, (x.shape[0], ny), 1) + lax.broadcasted_iota(jnp.int32, (x.shape[0], ny), 0) * 10)
        elif use == "tri":
            outs.append(jnp.tri(x.shape[0], ny) * 2.0)
        elif use == "slice_to":
            outs.append(jnp.broadcast_to(x.sum(axis=1)[:, None], (x.shape[0], ny))[: ny, : x.shape[0]].sum(axis=1))
        elif use == "head3":
            outs.append((Y()[:3] * 2.0).sum(axis=1))  # min(N, 3) rows
        dims = pre if pre is not None else dim_outputs()
        return tuple(dims + outs)

    return fn


def check_dim_case(es, use, acc=None, bindings=PAIRS):
    """Returns list of violation dicts."""
    from vf import jaxutil, onnxutil

    out = []
    fn = make_dim_fn(es, use)
    case = {"kind": "dimexpr", "es": es, "use": use}
    img = use.startswith("nchw")
    y_t = "yT" in use.split("@")[1:]
    try:
        model = jaxutil.to_onnx(fn, [("K", "B", "N", 3)], inputs_as_nchw=[0]) if img else jaxutil.to_onnx(fn, [("B", 3), (3, "N") if y_t else ("N", 3)])
    except Exception as e:
        if acc:
            acc.tally("dim_status", "export_rejected")
            acc.tally("rejected_reasons", f"{type(e).__name__}: {str(e)[:70]}")
            acc.case()
        return out
    try:
        sess = onnxutil.session(model)
    except Exception as e:
        out.append({"sig": {"layer": "dimexpr", "kind": "ort_load_error", "use": use}, "case": case, "detail": str(e)[:300]})
        return out
    ins = [i.name for i in sess.get_inputs()]
    for B, N in bindings:
        x = (np.arange(B * 3, dtype=np.float32).reshape(B, 3) - 1) * 0.5
        y = np.arange(N * 3, dtype=np.float32).reshape(N, 3) * 0.25 + 1
        if y_t:
            y = np.ascontiguousarray(y.T)
        if img:
            ximg = (np.arange(2 * B * N * 3, dtype=np.float32).reshape(2, B, N, 3) * 0.01 - 0.2)
        try:
            exp = jaxutil.flatten(fn(ximg) if img else fn(x, y))
        except Exception:
            if acc:
                acc.tally("dim_status", "jax_rejects_binding")
            continue
        feeds = {ins[0]: np.transpose(ximg, (0, 3, 1, 2))} if img else dict(zip(ins, [x, y]))
        binding_class = "one" if 1 in (B, N) else ("equal" if B == N else ("large" if max(B, N) > 5 else "unequal"))
        try:
            got = sess.run(None, feeds)
        except Exception as e:
            out.append({"sig": {"layer": "dimexpr", "kind": "ort_runtime_error", "use": use, "binding_class": binding_class},
                        "case": dict(case, bindings=[[B, N]]), "detail": f"B={B},N={N}: {str(e)[:250]}"})
            break
        nontrivial = (B, N) not in ((2, 2), (3, 3))
        if acc:
            acc.case(key=("dim", digest([es, use]), B, N), nontrivial=nontrivial)
        bad = None
        if len(got) != len(exp):
            bad = (-1, f"{len(got)} outputs vs {len(exp)}")
        else:
            for i, (g, e_) in enumerate(zip(got, exp)):
                if g.shape != e_.shape:
                    bad = (i, f"shape {g.shape} vs {e_.shape}")
                    break
                if e_.dtype.kind in "iub":
                    if not np.array_equal(g.astype(np.int64), e_.astype(np.int64)):
                        bad = (i, f"value {g.tolist() if g.size < 5 else '...'} vs {e_.tolist() if e_.size < 5 else '...'}")
                        break
                elif not np.allclose(g, e_, rtol=1e-5, atol=1e-6):
                    bad = (i, "float values differ")
                    break
        if bad:
            i, d = bad
            which = dexpr_skeleton(es[i]) if 0 <= i < len(es) else use
            what = dexpr_show(es[i]) if 0 <= i < len(es) else use
            out.append({"sig": {"layer": "dimexpr", "kind": "value", "skeleton": which, "binding_class": binding_class},
                        "case": dict(case, bindings=[[B, N]]), "detail": f"{what} at B={B},N={N}: {d}"})
            break
    if acc:
        acc.tally("dim_status", "violation" if out else "ok")
    return out


def _work_dim(sh, acc):
    import hypothesis
    from hypothesis import HealthCheck, Phase, given, settings, strategies as st

    @hypothesis.seed(derive_seed(sh["seed"], "c04dim", sh["shard"]))
    @settings(max_examples=sh["examples"], deadline=None, database=None, suppress_health_check=list(HealthCheck),
              phases=[Phase.generate], report_multiple_bugs=False)
    @given(st.lists(dexpr_strategy(), min_size=1, max_size=3),
           st.sampled_from(["value", "value", "reshape", "arange", "broadcast", "outer", "flatten", "concat", "zeros", "nchw_value", "nchw_bcast", "concat_split",
                            "stack_merge", "tile_split", "concat_xy_reshape", "concat_cols_split", "iota2", "tri", "slice_to", "head3"]),
           st.booleans(), st.booleans())
    def t(es, use, y_t, first):
        if not use.startswith("nchw"):
            use = use + ("@yT" if y_t else "") + ("@F" if first else "")
        if not any(dexpr_uses(e, "B") or dexpr_uses(e, "N") for e in es):
            acc.count("trivial_const")
            acc.case()
            return
        for e in es:
            acc.tally("skeleton_roots", e[0])
        acc.tally("use", use)
        vs = check_dim_case(es, use, acc)
        if len(acc.samples) < 3 and not vs:
            acc.samples.append({"dims": [dexpr_show(e) for e in es], "use": use, "bindings": PAIRS})
        for v in vs:
            acc.violation(v["sig"], v["case"], v["detail"])

    t()


# ------------------------------------------------------------------ generated programs with symbolic dims


def check_sym_program(prog, feed_seed, acc=None, bindings=(1, 2, 3, 5, 7)):
    from hypothesis import strategies as st  # noqa: F401
    from vf import jaxutil, onnxutil, progen

    out = []
    fn = progen.build(prog)
    case = {"kind": "program", "prog": prog, "feed_seed": feed_seed}
    try:
        model = jaxutil.to_onnx(fn, progen.input_specs_for_export(prog))
    except Exception as e:
        if acc:
            acc.tally("prog_status", "export_rejected")
            acc.tally("rejected_reasons", f"{type(e).__name__}: {str(e)[:70]}")
            acc.case()
        return out
    try:
        sess = onnxutil.session(model)
    except Exception as e:
        out.append({"sig": {"layer": "program", "kind": "ort_load_error"}, "case": case, "detail": str(e)[:300]})
        return out
    ins = sess.get_inputs()
    for b in bindings:
        bind = {"B": b, "N": b}
        rng = np.random.default_rng(feed_seed + b)
        feeds = []
        for dt, shape in prog["inputs"]:
            shp = tuple(bind[d] if isinstance(d, str) else d for d in shape)
            if dt == progen.F:
                feeds.append((rng.standard_normal(shp) * 2).astype(np.float32))
            elif dt == progen.I:
                feeds.append(rng.integers(-4, 9, size=shp).astype(np.int32))
            else:
                feeds.append(rng.integers(0, 2, size=shp).astype(np.bool_))
        feeds = [np.asarray(f) for f in feeds]
        try:
            ref32 = jaxutil.eager(fn, feeds)
        except Exception:
            if acc:
                acc.tally("prog_status", "jax_rejects_binding")
            continue
        bc = "one" if b == 1 else ("large" if b > 5 else "mid")
        try:
            got = sess.run(None, {i.name: f for i, f in zip(ins, feeds)})
        except Exception as e:
            out.append({"sig": {"layer": "program", "kind": "ort_runtime_error", "binding_class": bc},
                        "case": dict(case, bindings=[b]), "detail": f"B={b}: {str(e)[:250]}"})
            break
        ref64 = jaxutil.eager64(fn, feeds)
        st_, d = jaxutil.compare_all(got, ref32, ref64)
        if acc:
            acc.case(key=("prog", digest(prog["stmts"]), b), nontrivial=(b not in (2, 3) and st_ == "ok"))
            acc.tally("prog_status", st_)
        if st_ not in ("ok", "trivial"):
            # is it a symbolic-shape problem at all?  compare with a static export at the same size
            static_ok = None
            try:
                sprog = dict(prog, inputs=[[dt, [bind[x] if isinstance(x, str) else x for x in shape]] for dt, shape in prog["inputs"]])
                sfn = progen.build(_concretise(prog, b))
                smodel = jaxutil.to_onnx(sfn, progen.input_specs_for_export(sprog))
                sgot = jaxutil.run_model(smodel, feeds)
                static_ok = jaxutil.compare_all(sgot, ref32, ref64)[0] in ("ok", "trivial")
            except Exception:
                static_ok = None
            if static_ok is False:
                if acc:
                    acc.tally("prog_status", "diverges_also_when_static(C01)")
                break
            ops = sorted(set(progen.ops_of(prog)))
            out.append({"sig": {"layer": "program", "kind": st_, "binding_class": bc}, "case": dict(case, bindings=[b]),
                        "detail": f"B={b}: {d} | ops={ops[:12]}"})
            break
    return out


def _concretise(prog, b):
    import json

    s = json.loads(json.dumps(prog))

    def fix(x):
        if isinstance(x, list):
            return [fix(i) for i in x]
        if isinstance(x, dict):
            return {k: fix(v) for k, v in x.items()}
        return x

    return fix(s)


def _work_programs(sh, acc):
    import hypothesis
    from hypothesis import HealthCheck, Phase, given, settings, strategies as st
    from vf import progen

    @hypothesis.seed(derive_seed(sh["seed"], "c04prog", sh["shard"]))
    @settings(max_examples=sh["examples"], deadline=None, database=None, suppress_health_check=list(HealthCheck),
              phases=[Phase.generate], report_multiple_bugs=False)
    @given(progen.programs(max_stmts=7, symbolic=True), st.integers(0, 10**6))
    def t(prog, fs):
        if not any(isinstance(d, str) for _, s in prog["inputs"] for d in s):
            acc.count("no_symbol")
            acc.case()
            return
        for op in set(progen.ops_of(prog)):
            acc.tally("ops", op)
        vs = check_sym_program(prog, fs, acc)
        if not vs and len(acc.samples) < 2:
            acc.samples.append({"inputs": prog["inputs"], "stmts": [[s["op"], s.get("kw", {}).get("f", "")] for s in prog["stmts"]][:10]})
        for v in vs:
            acc.violation(v["sig"], v["case"], v["detail"])

    t()


# ------------------------------------------------------------------ catalog entries with string dims


def check_catalog_sym(cid, acc=None, bindings=(1, 2, 3, 5, 7)):
    import jax.numpy as jnp
    from vf import catalog, jaxutil, onnxutil

    out = []
    case = catalog.by_id(cid)
    p = catalog.prepare(case) if case else None
    if p is None or not p.symbols or p.base is not None:
        return out
    tc = case["tc"]
    sigbase = {"layer": "catalog", "component": f"{case['context']}/{case['component']}", "testcase": tc.get("testcase")}
    try:
        model = jaxutil.to_onnx(p.fn, p.specs, **p.kw)
        sess = onnxutil.session(model)
    except Exception as e:
        if acc:
            acc.tally("catalog_status", "export_or_load_error")
        return out
    if tc.get("skip_numeric_validation"):
        return out
    for b in bindings:
        rng = np.random.default_rng(77 + b)
        fds = catalog.feeds(p, rng, 3, sym=b)
        try:
            r32 = jaxutil.flatten(p.fn(*[jnp.asarray(f) for f in fds], **p.params))
        except Exception:
            if acc:
                acc.tally("catalog_status", "jax_rejects_binding")
            continue
        bc = "one" if b == 1 else ("large" if b > 5 else "mid")
        try:
            got = sess.run(None, catalog.ort_feeds(p, sess, fds))
        except Exception as e:
            out.append({"sig": dict(sigbase, kind="ort_runtime_error", binding_class=bc), "case": {"kind": "catalog", "id": cid, "bindings": [b]},
                        "detail": f"dims={b}: {str(e)[:250]}"})
            break
        got = catalog.unpermute_outputs(p, got)
        got2 = []
        for g, e in zip(got, r32):
            if e.dtype.kind == "c" and g.dtype.kind != "c" and g.shape == e.shape + (2,):
                g = g[..., 0] + 1j * g[..., 1]
            got2.append(g)
        if len(got) != len(r32):
            got2 = got
        st_, d = jaxutil.compare_all(got2, r32, None)
        if acc:
            acc.case(key=("catalog", cid, b), nontrivial=(b not in (2, 3) and st_ == "ok"))
            acc.tally("catalog_status", st_)
        if st_ not in ("ok", "trivial"):
            out.append({"sig": dict(sigbase, kind=st_, binding_class=bc), "case": {"kind": "catalog", "id": cid, "bindings": [b]},
                        "detail": f"dims={b}: {d}"})
            break
    return out


def _work_catalog(sh, acc):
    import time

    t0 = time.monotonic()
    for k, cid in enumerate(sh["ids"]):
        if time.monotonic() - t0 > sh.get("budget_s", 1e9):
            acc.inconclusive += len(sh["ids"]) - k
            acc.tally("catalog_status", "not_reached_within_budget", len(sh["ids"]) - k)
            break
        t1 = time.monotonic()
        vs = check_catalog_sym(cid, acc)
        acc.timed(cid, time.monotonic() - t1)
        if not vs and len(acc.samples) < 1:
            acc.samples.append({"catalog_id": cid, "bindings": [1, 2, 3, 5, 7]})
        for v in vs:
            acc.violation(v["sig"], v["case"], v["detail"])


def list_sym_ids(_):
    from vf import catalog

    out = []
    for c in catalog.cases():
        tc = c["tc"]
        shapes = tc.get("input_shapes") or []
        if any(isinstance(d, str) for s in shapes for d in s) and tc.get("callable") is not None:
            out.append(c["id"])
    return out


def plan(tier, seed):
    from vf import core

    n = 16 if tier == "quick" else 48
    shards = [{"kind": "dim", "shard": i, "seed": seed, "examples": 12 if tier == "quick" else 90} for i in range(n)]
    shards += [{"kind": "programs", "shard": i, "seed": seed, "examples": 8 if tier == "quick" else 70} for i in range(n)]
    res = list(core.run_pool("vf.props.c04", "list_sym_ids", [{}], nproc=1))[0]
    if not res["ok"]:
        raise RuntimeError(res["tb"])
    ids = res["res"]
    if tier == "quick":
        rng = np.random.default_rng(seed)
        ids = [ids[i] for i in sorted(rng.choice(len(ids), size=min(96, len(ids)), replace=False).tolist())]
    k = 16 if tier == "quick" else 32
    shards += [{"kind": "catalog", "ids": ids[i::k], "budget_s": 70 if tier == "quick" else 500} for i in range(k)]
    return shards


def work(sh):
    acc = Acc()
    {"dim": _work_dim, "programs": _work_programs, "catalog": _work_catalog}[sh["kind"]](sh, acc)
    return acc.to_dict()


def replay(case):
    if case["kind"] == "dimexpr":
        b = [tuple(x) for x in case.get("bindings", PAIRS)]
        return check_dim_case(case["es"], case["use"], None, bindings=b)
    if case["kind"] == "program":
        return check_sym_program(case["prog"], case["feed_seed"], None, bindings=tuple(case.get("bindings", (1, 2, 3, 5, 7))))
    return check_catalog_sym(case["id"], None, bindings=tuple(case.get("bindings", (1, 2, 3, 5, 7))))
