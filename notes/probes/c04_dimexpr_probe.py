import sys; sys.path.insert(0,'/tmp')
import jax, jax.numpy as jnp, numpy as np
from jax2onnx import to_onnx
import jitfix
import onnxruntime as ort
def run(fn, specs, feeds):
    m = to_onnx(fn, specs)
    s = ort.InferenceSession(m.SerializeToString())
    return s.run(None, {i.name: f for i, f in zip(s.get_inputs(), feeds)})
def f1(x):
    b = x.shape[0]
    return jnp.asarray(b*b + 2*b), jnp.asarray(2*b + b*b*b)
for B in (1,2,3,5):
    try:
        out = run(f1, [("B",3)], [np.zeros((B,3),np.float32)])
        print(B, out, "expected", B*B+2*B, 2*B+B**3)
    except Exception as e:
        print("f1 FAIL", type(e).__name__, str(e)[:300]); break
def f2(x):
    b = x.shape[0]
    return jnp.asarray((b-5)//2), jnp.asarray((b+1)%3), jnp.asarray(b//2)
for B in (1,2,3,5,8):
    try:
        out = run(f2, [("B",3)], [np.zeros((B,3),np.float32)])
        print(B, out, "expected", (B-5)//2, (B+1)%3, B//2)
    except Exception as e:
        print("f2 FAIL", type(e).__name__, str(e)[:300]); break
def f3(x, y):
    return jnp.reshape(x, (-1,)).sum() + y.sum(), x[:, None, :] * y[None, :, :]
for B,N in ((1,1),(2,3),(3,2),(1,4),(4,1)):
    try:
        x=np.arange(B*3,dtype=np.float32).reshape(B,3); y=np.arange(N*3,dtype=np.float32).reshape(N,3)
        out = run(f3, [("B",3),("N",3)], [x,y])
        exp = f3(x,y)
        print(B,N, np.allclose(out[0],exp[0]), out[1].shape==exp[1].shape and np.allclose(out[1],exp[1]))
    except Exception as e:
        print("f3 FAIL", B,N,type(e).__name__, str(e)[:300])
