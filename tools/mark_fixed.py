#!/usr/bin/env python3
"""Turn open known-finding entries whose repro no longer fails into 'fixed' entries.
usage: tools/mark_fixed.py Cxx <commit> id1,id2,...   (the summary is kept; the match/repro are dropped; a corpus case is written)"""
import json, os, sys
ROOT = os.path.dirname(os.path.dirname(os.path.abspath(__file__)))
prop, commit, ids = sys.argv[1], sys.argv[2], sys.argv[3].split(",")
p = os.path.join(ROOT, "known_findings", f"{prop}.json")
d = json.load(open(p))
os.makedirs(os.path.join(ROOT, "corpus", prop), exist_ok=True)
n = 0
for e in d["entries"]:
    if e["id"] in ids and e["status"] == "open":
        if e.get("repro"):
            name = e["id"].replace(prop + "-", "").replace("/", "_").replace(":", "_")[:80] + ".json"
            json.dump({"property": prop, "sig": e.get("match", {}), "detail": e.get("summary", ""), "case": e["repro"]}, open(os.path.join(ROOT, "corpus", prop, name), "w"))
        summary, ident = e.get("summary", ""), e["id"]
        e.clear()
        e.update({"id": ident, "status": "fixed", "commit": commit, "summary": summary[:300],
                  "line": f"fixed: property={prop} {commit} {summary[:180]}"})
        n += 1
json.dump(d, open(p, "w"), indent=1)
print("marked", n, "entries fixed")
