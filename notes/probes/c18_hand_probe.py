import sys; sys.path.insert(0,'/tmp')
import jax, jax.numpy as jnp, numpy as np, onnx, tempfile, os
from onnx import helper as h, TensorProto as TP
from jax2onnx import to_onnx, allclose
d=tempfile.mkdtemp()
def save(graph_nodes, inputs, outputs, inits=(), name="m"):
    g=h.make_graph(graph_nodes, "g", inputs, outputs, list(inits))
    m=h.make_model(g, opset_imports=[h.make_opsetid("",21)], ir_version=10)
    p=os.path.join(d,name+".onnx"); onnx.save(m,p); return p
vi=lambda n,t,s: h.make_tensor_value_info(n,t,s)
x=np.array([1.5,2.5,-3.5],np.float32)
# 1. fn returns int (floor) ; model returns float x (1.5) -> compare int: got.astype(int) truncates
p=save([h.make_node("Identity",["x"],["y"])],[vi("x",TP.FLOAT,[3])],[vi("y",TP.FLOAT,[3])],name="a")
print("int-exp vs float-got:", allclose(lambda a: jnp.floor(a).astype(jnp.int32), p, [x]))
print("  jax:", np.floor(x).astype(np.int32), "model:", x)
# 2. bool expected vs int got 2
p=save([h.make_node("Cast",["x"],["y"],to=TP.INT32)],[vi("x",TP.FLOAT,[3])],[vi("y",TP.INT32,[3])],name="b")
print("bool-exp vs int-got:", allclose(lambda a: a>0, p, [x]), " model:", x.astype(np.int32), "jax:", x>0)
# 3. value mismatch float
p=save([h.make_node("Neg",["x"],["y"])],[vi("x",TP.FLOAT,[3])],[vi("y",TP.FLOAT,[3])],name="c")
print("neg vs id:", allclose(lambda a: a, p, [x]))
# 4. NaN vs number
p=save([h.make_node("Log",["x"],["y"])],[vi("x",TP.FLOAT,[3])],[vi("y",TP.FLOAT,[3])],name="dd")
print("nan: ", allclose(lambda a: jnp.log(jnp.abs(a)), p, [x]))
# 5. count mismatch
p=save([h.make_node("Identity",["x"],["y"]),h.make_node("Identity",["x"],["z"])],[vi("x",TP.FLOAT,[3])],[vi("y",TP.FLOAT,[3]),vi("z",TP.FLOAT,[3])],name="e")
print("count:", allclose(lambda a: a, p, [x]))
# 6. shape mismatch broadcastable (3,) vs (1,3)
p=save([h.make_node("Unsqueeze",["x","ax"],["y"])],[vi("x",TP.FLOAT,[3])],[vi("y",TP.FLOAT,[1,3])],[h.make_tensor("ax",TP.INT64,[1],[0])],name="f")
print("shape:", allclose(lambda a: a, p, [x]))
# 7. int64 wrap: expected int32 5, got int64 2**32+5
p=save([h.make_node("Add",["x","c"],["y"])],[vi("x",TP.INT64,[1])],[vi("y",TP.INT64,[1])],[h.make_tensor("c",TP.INT64,[1],[2**32])],name="g")
print("wrap:", allclose(lambda a: a.astype(jnp.int32), p, [np.array([5],np.int64)]))
# 8. empty outputs
# 9. x64 flag restore
print(jax.config.jax_enable_x64)
print("x64:", allclose(lambda a: a, save([h.make_node("Identity",["x"],["y"])],[vi("x",TP.DOUBLE,[3])],[vi("y",TP.DOUBLE,[3])],name="h"), [x.astype(np.float64)], enable_double_precision=True), jax.config.jax_enable_x64)
# 10 float expected vs int got (model returns int 1 for 1.4)
p=save([h.make_node("Cast",["x"],["y"],to=TP.INT32)],[vi("x",TP.FLOAT,[3])],[vi("y",TP.INT32,[3])],name="i")
print("float-exp int-got:", allclose(lambda a: a, p, [x]))
# 11 inf vs large
p=save([h.make_node("Mul",["x","c"],["y"])],[vi("x",TP.FLOAT,[3])],[vi("y",TP.FLOAT,[3])],[h.make_tensor("c",TP.FLOAT,[1],[1e38])],name="j")
print("inf vs finite:", allclose(lambda a: a*1e30, p, [x*1e3]))
