"""C09 — the precision flag is honoured end to end."""

from __future__ import annotations

import numpy as np

from vf.core import Acc, derive_seed, digest

PROPERTY = "C09"
LEVEL = "exploration"
RULE = (
    "programs: registered testcases (seeded sample in quick, all in thorough), Hypothesis-generated compositions, control-flow programs and "
    "@onnx_function histories, x {single, double}. (a) single: a recursive scan of the returned ModelProto (initializers, Constant attributes, "
    "value_info, graph inputs/outputs, Cast.to, subgraphs, function bodies) finds no DOUBLE element type, and float outputs are FLOAT. (b) double: "
    "when the x64 jaxpr of the callable has only float64 floating avals (precondition computed by walking the jaxpr recursively), ORT agrees with "
    "eager JAX x64 within 1e-9*scale on well-conditioned elements (elements that move < 1e-12 relative when the inputs are moved by one ulp): a "
    "hidden float32 round trip costs ~6e-8. (c) jax_enable_x64 is the same before and after every call, returning or raising (a failing call is "
    "injected per program). non-trivial for (b) = precondition holds, >=1 well-conditioned element, and the program has a constant or a body scope; "
    "distinct by (program digest, precision)."
)
ASSUMPTIONS = [
    "eager JAX under jax_enable_x64 is the double-precision reference",
    "the one-ulp perturbation probe decides which elements are well conditioned; ill-conditioned elements are not compared",
    "programs whose x64 jaxpr still carries float32 avals (explicit float32 constants/casts) are outside clause (b)",
]


def scan_double(model):
    """Returns list of places where a DOUBLE element type occurs."""
    import onnx
    from onnx import TensorProto as TP

    hits = []

    def vi(v, where):
        if v.type.HasField("tensor_type") and v.type.tensor_type.elem_type == TP.DOUBLE:
            hits.append(f"{where}:{v.name}")

    def tensor(t, where):
        if t.data_type == TP.DOUBLE:
            hits.append(f"{where}:{t.name or '<tensor>'}")

    def nodes(ns, where):
        for n in ns:
            for a in n.attribute:
                if a.type == onnx.AttributeProto.TENSOR:
                    tensor(a.t, f"{where}/{n.op_type}.{a.name}")
                elif a.type == onnx.AttributeProto.TENSORS:
                    for t in a.tensors:
                        tensor(t, f"{where}/{n.op_type}.{a.name}")
                elif a.type == onnx.AttributeProto.GRAPH:
                    graph(a.g, f"{where}/{n.op_type}.{a.name}")
                elif a.type == onnx.AttributeProto.GRAPHS:
                    for g in a.graphs:
                        graph(g, f"{where}/{n.op_type}.{a.name}")
                elif a.name in ("to", "dtype") and a.type == onnx.AttributeProto.INT and a.i == TP.DOUBLE and n.op_type in (
                        "Cast", "CastLike", "ConstantOfShape", "RandomNormal", "RandomUniform", "RandomNormalLike", "RandomUniformLike", "EyeLike", "Multinomial", "Bernoulli"):
                    hits.append(f"{where}/{n.op_type}.{a.name}=DOUBLE")

    def graph(g, where):
        for v in list(g.input) + list(g.output) + list(g.value_info):
            vi(v, where)
        for t in g.initializer:
            tensor(t, where + "/initializer")
        nodes(g.node, where)

    graph(model.graph, "graph")
    for f in model.functions:
        nodes(f.node, f"function {f.name}")
        for v in f.value_info:
            vi(v, f"function {f.name}")
    return hits


def all_f64(closed):
    """True when every floating aval in the (closed) jaxpr, recursively, is float64."""
    import jax

    seen = set()

    def walk(jaxpr):
        ok = True
        for v in list(jaxpr.invars) + list(jaxpr.constvars) + list(jaxpr.outvars):
            av = getattr(v, "aval", None)
            if av is not None and hasattr(av, "dtype") and np.dtype(av.dtype).kind == "f" and np.dtype(av.dtype) != np.float64:
                ok = False
        for e in jaxpr.eqns:
            for v in list(e.invars) + list(e.outvars):
                av = getattr(v, "aval", None)
                if av is not None and hasattr(av, "dtype") and np.dtype(av.dtype).kind == "f" and np.dtype(av.dtype) != np.float64:
                    ok = False
            for p in e.params.values():
                for sub in (p if isinstance(p, (list, tuple)) else [p]):
                    j = getattr(sub, "jaxpr", sub)
                    if hasattr(j, "eqns") and id(j) not in seen:
                        seen.add(id(j))
                        ok = walk(j) and ok
        return ok

    return walk(closed.jaxpr)


def check_callable(pid, fn, shapes, dtypes, acc=None, sigbase=None, case=None, kw=None, has_scope=True, feed_seed=11):
    import jax
    import jax.numpy as jnp
    from vf import jaxutil

    out = []
    kw = dict(kw or {})
    rng = np.random.default_rng(feed_seed)
    flag0 = bool(jax.config.jax_enable_x64)
    sigbase = sigbase or {}
    # ---- (a) single precision
    specs32 = [jax.ShapeDtypeStruct(tuple(s), np.float32 if np.dtype(d).kind == "f" else d) for s, d in zip(shapes, dtypes)]
    try:
        m32 = jaxutil.to_onnx(fn, specs32, enable_double_precision=False, **kw)
    except Exception:
        m32 = None
        if acc:
            acc.tally("single", "export_rejected")
    if bool(jax.config.jax_enable_x64) != flag0:
        out.append({"sig": dict(sigbase, facet="x64_flag", when="single_export"), "case": case, "detail": "jax_enable_x64 changed by a single-precision export"})
        jax.config.update("jax_enable_x64", flag0)
    if m32 is not None:
        hits = scan_double(m32)
        if acc:
            acc.case(key=("single", pid), nontrivial=True)
            acc.tally("single", "double_found" if hits else "clean")
        if hits:
            loc = "function" if any(h.startswith("function") for h in hits) else ("subgraph" if any("/" in h.split(":")[0][6:] for h in hits) else "top")
            out.append({"sig": dict(sigbase, facet="double_in_single", location=loc), "case": dict(case or {}, precision="single"),
                        "detail": f"{len(hits)} DOUBLE occurrences in a single-precision export, e.g. {hits[:3]}"})
    # ---- (b) double precision
    specs64 = [jax.ShapeDtypeStruct(tuple(s), np.float64 if np.dtype(d).kind == "f" else d) for s, d in zip(shapes, dtypes)]
    try:
        with jaxutil.x64(True):
            pk0 = dict(kw.get("input_params") or {})
            closed = jax.make_jaxpr(lambda *xs: fn(*xs, **pk0))(*specs64)
            pre = all_f64(closed)
    except Exception:
        pre = None
    try:
        m64 = jaxutil.to_onnx(fn, specs64, enable_double_precision=True, **kw)
    except Exception as e:
        m64 = None
        if acc:
            acc.tally("double", "export_rejected")
    if bool(jax.config.jax_enable_x64) != flag0:
        out.append({"sig": dict(sigbase, facet="x64_flag", when="double_export"), "case": case, "detail": "jax_enable_x64 differs after a double-precision export"})
        jax.config.update("jax_enable_x64", flag0)
    if m64 is not None and pre:
        feeds = []
        for s, d in zip(shapes, dtypes):
            d = np.dtype(d)
            if d.kind == "f":
                feeds.append(np.asarray(rng.standard_normal(tuple(s)) * 1.5, dtype=np.float64))
            elif d.kind in "iu":
                feeds.append(np.asarray(rng.integers(0, 5, tuple(s))).astype(d))
            else:
                feeds.append(np.asarray(rng.random(tuple(s)) > 0.5))
        try:
            pk = dict(kw.get("input_params") or {})
            with jaxutil.x64(True):
                ref = jaxutil.flatten(fn(*[jnp.asarray(f) for f in feeds], **pk))
                nudged = [np.nextafter(f, np.inf) if f.dtype.kind == "f" else f for f in feeds]
                ref2 = jaxutil.flatten(fn(*[jnp.asarray(f) for f in nudged], **pk))
            if kw.get("input_params"):
                from vf import onnxutil

                sess = onnxutil.session(m64)
                fd, it = {}, iter(feeds)
                for i in sess.get_inputs():
                    fd[i.name] = np.asarray(kw["input_params"][i.name], dtype=np.float64 if "double" in i.type else None) if i.name in kw["input_params"] else next(it)
                got = sess.run(None, fd)
            else:
                got = jaxutil.run_model(m64, feeds)
        except Exception as e:
            if acc:
                acc.tally("double", "run_error")
            ref = None
        if ref is not None and len(got) == len(ref):
            compared = 0
            for oi, (g, r, r2) in enumerate(zip(got, ref, ref2)):
                g, r, r2 = np.asarray(g), np.asarray(r), np.asarray(r2)
                if r.dtype.kind != "f" or g.shape != r.shape:
                    continue
                fin = np.isfinite(r) & np.isfinite(r2)
                if not fin.any():
                    continue
                scale = max(1.0, float(np.abs(r[fin]).max()))
                well = fin & (np.abs(r2 - r) <= 1e-12 * scale)
                if not well.any():
                    continue
                compared += int(well.sum())
                err = np.abs(g.astype(np.float64) - r)
                bad = well & (err > 1e-9 * scale)
                if bad.any():
                    j = tuple(np.argwhere(bad)[0])
                    out.append({"sig": dict(sigbase, facet="f32_detour"), "case": dict(case or {}, precision="double"),
                                "detail": f"output {oi} at {j}: onnx {g[j]!r} vs jax x64 {r[j]!r} (rel err {err[j] / scale:.2e}, band 1e-9); {int(bad.sum())} of {int(well.sum())} well-conditioned elements"})
                    break
            if acc:
                acc.case(key=("double", pid), nontrivial=bool(compared and has_scope))
                acc.tally("double", "compared" if compared else "no_well_conditioned_element")
    elif acc and m64 is not None:
        acc.tally("double", "precondition_false(float32 avals in the x64 jaxpr)" if pre is False else "precondition_unknown")
        acc.case()
    # ---- (c) the flag also survives a raising call
    try:
        def boom(*a):
            raise RuntimeError("user error")

        jaxutil.to_onnx(boom, specs64[:1] or [(2,)], enable_double_precision=True)
    except Exception:
        pass
    if bool(jax.config.jax_enable_x64) != flag0:
        out.append({"sig": dict(sigbase, facet="x64_flag", when="raising_double_export"), "case": case, "detail": "jax_enable_x64 differs after a raising double-precision export"})
        jax.config.update("jax_enable_x64", flag0)
    return out


def check_catalog(cid, acc=None):
    import jax.numpy as jnp
    from vf import catalog

    case = catalog.by_id(cid)
    if case is None:
        return []
    tc = case["tc"]
    shapes, dts = tc.get("input_shapes"), tc.get("input_dtypes")
    if (not shapes or any(isinstance(d, str) for s in shapes for d in s) or tc.get("input_params") or tc.get("run_only_f64_variant")
            or tc.get("enable_double_precision") or tc.get("run_only_f32_variant") or tc.get("disable_float64_test")):
        return []
    dts2 = [np.dtype(d) for d in dts] if dts else [np.dtype(np.float32)] * len(shapes)
    if any(d.kind == "c" for d in dts2):
        return []
    fn = tc.get("callable")
    if getattr(fn, "__jax2onnx_factory__", False):
        # the factory instantiates parameters in one dtype: check the two precisions with their own instances
        out = []
        try:
            f32 = fn.with_dtype(jnp.float32).instantiate()
        except Exception:
            return []
        out += _single_only(cid, f32, shapes, dts2, case, acc)
        return out
    kw = {}
    for k in ("inputs_as_nchw", "outputs_as_nchw", "normalization_mode"):
        if tc.get(k) is not None:
            kw[k] = tc[k]
    if tc.get("opset_version"):
        kw["opset"] = tc["opset_version"]
    sigbase = {"layer": "catalog", "component": f"{case['context']}/{case['component']}", "testcase": tc.get("testcase")}
    if kw.get("inputs_as_nchw") or kw.get("outputs_as_nchw"):
        return _single_only(cid, fn, shapes, dts2, case, acc, kw)
    return check_callable(cid, fn, shapes, dts2, acc, sigbase, {"kind": "catalog", "id": cid}, kw, has_scope=True)


def _single_only(cid, fn, shapes, dts2, case, acc, kw=None):
    import jax
    from vf import jaxutil

    tc = case["tc"]
    sigbase = {"layer": "catalog", "component": f"{case['context']}/{case['component']}", "testcase": tc.get("testcase")}
    specs32 = [jax.ShapeDtypeStruct(tuple(s), np.float32 if d.kind == "f" else d) for s, d in zip(shapes, dts2)]
    try:
        m32 = jaxutil.to_onnx(fn, specs32, enable_double_precision=False, **(kw or {}))
    except Exception:
        return []
    hits = scan_double(m32)
    if acc:
        acc.case(key=("single", cid), nontrivial=True)
        acc.tally("single", "double_found" if hits else "clean")
    if hits:
        return [{"sig": dict(sigbase, facet="double_in_single", location="top"), "case": {"kind": "catalog", "id": cid, "precision": "single"},
                 "detail": f"{len(hits)} DOUBLE occurrences in a single-precision export, e.g. {hits[:3]}"}]
    return []


def check_generated(kind, a, b, acc=None):
    from vf import progen
    from vf.props import c06, c07

    case = {"kind": "generated", "gk": kind, "a": a, "b": b}
    if kind == "prog":
        fn = progen.build(a)
        shapes = [tuple(s) for _, s in a["inputs"]]
        dts = [np.dtype(progen.NP_DT[dt]) for dt, _ in a["inputs"]]
        has_scope = any(s["op"].startswith("const") for s in a["stmts"])
        sb = {"layer": "generated", "structure": "prog"}
    elif kind == "cf":
        fn = c06.make_fn(a, False)
        shapes = [(3,), (2, 3), (), ()]
        dts = [np.dtype(np.float32), np.dtype(np.float32), np.dtype(np.int32), np.dtype(np.bool_)]
        has_scope = True
        sb = {"layer": "generated", "structure": "cf", "nesting": c06.nesting_string(a)}
    else:
        fn = c07.build(a, b)
        shapes, dts, has_scope = [(3, 4)], [np.dtype(np.float32)], True
        sb = {"layer": "generated", "structure": "hist"}
    kw = None
    if case.get("float_param") or (b == "float_param"):
        inner = fn

        def fn(*xs, scale=0.1, shift=0.3):  # noqa: F811 - float call-time parameters (input_params)
            import jax
            import jax.numpy as jnp

            out = inner(*xs)
            return jax.tree_util.tree_map(lambda o: o * scale + shift if jnp.issubdtype(o.dtype, jnp.floating) else o, out)

        kw = {"input_params": {"scale": 0.1, "shift": 0.3}}
        sb = dict(sb, float_param=True)
    vs = check_callable(digest([kind, a, b]), fn, shapes, dts, acc, sb, case, kw, has_scope)
    if kind == "prog":
        # name the operator that produced the deviating output, so that a recorded finding does not hide other operators
        import re

        prod = {s["o"]: s["op"] + (":" + s["kw"]["f"] if isinstance(s.get("kw", {}).get("f"), str) else "") for s in a["stmts"] if not isinstance(s["o"], list)}
        for v in vs:
            m = re.match(r"output (\d+) ", v.get("detail", ""))
            if m and int(m.group(1)) < len(a["outputs"]):
                v["sig"]["op"] = prod.get(a["outputs"][int(m.group(1))], "input")
    return vs


def large_programs():
    """Size-sensitive lowerings: reductions / scans / contractions over large static extents."""
    import jax
    import jax.numpy as jnp

    P = []
    for shape, axis in (((256, 128), None), ((20000, 8), 0), ((4, 8192), 1), ((20000, 8), 1), ((64, 64, 16), (0, 1))):
        for name, f in (("sum", jnp.sum), ("mean", jnp.mean), ("prod_small", lambda x, axis=None: jnp.prod(1.0 + x * 1e-4, axis=axis)), ("max", jnp.max),
                        ("var", jnp.var), ("logsumexp", jax.scipy.special.logsumexp)):
            P.append((f"{name}{shape}@{axis}", (lambda x, _f=f, _a=axis: _f(x, axis=_a)), [shape]))
    P.append(("cumsum(4,8192)", lambda x: jnp.cumsum(x, axis=1)[:, -3:], [(4, 8192)]))
    P.append(("softmax(4,8192)", lambda x: jax.nn.softmax(x, axis=1)[:, :5], [(4, 8192)]))
    P.append(("matmul(8,4096)x(4096,4)", lambda x: x @ jnp.full((4096, 4), 0.001, x.dtype), [(8, 4096)]))
    P.append(("dot(32768)", lambda x: jnp.dot(x, x), [(32768,)]))
    P.append(("einsum_large", lambda x: jnp.einsum("ij,ij->", x, x), [(256, 128)]))
    # float literals that are not representable in float32: every construct that materialises them must do so in double
    P.append(("lit_arange_step0.1", lambda x: jnp.arange(0.05, 2.0, 0.1) * x[0], [(3,)]))
    P.append(("lit_arange_neg_step", lambda x: jnp.arange(1.5, -1.0, -0.7) + x[0], [(3,)]))
    P.append(("lit_linspace", lambda x: jnp.linspace(0.05, 1.95, 7) * x[0], [(3,)]))
    P.append(("lit_full", lambda x: jnp.full((4,), 0.1) * x[0] + jnp.full_like(x[:1], 0.3), [(3,)]))
    P.append(("lit_array", lambda x: jnp.array([0.1, 0.2, 0.7]) * x + jnp.asarray(0.3), [(3,)]))
    P.append(("lit_where_scalar", lambda x: jnp.where(x > 0, x * 0.1, 0.7), [(3,)]))
    P.append(("lit_clip_bounds", lambda x: jnp.clip(x, -0.1, 0.3), [(3,)]))
    P.append(("lit_pad_value", lambda x: jnp.pad(x, (1, 1), constant_values=0.1), [(3,)]))
    P.append(("lit_power", lambda x: jnp.power(jnp.abs(x) + 0.1, 0.3), [(3,)]))
    return P


def check_large(idx, acc=None):
    name, fn, shapes = large_programs()[idx]
    return check_callable("large:" + name, fn, shapes, [np.dtype(np.float32)] * len(shapes), acc, {"layer": "large_extent", "program": name.split("(")[0]},
                          {"kind": "large", "idx": idx, "name": name}, None, has_scope=True)


def list_ids(_):
    from vf import catalog

    return [c["id"] for c in catalog.cases() if c["tc"].get("callable") is not None and c["tc"].get("input_shapes")]


def plan(tier, seed):
    from vf import core

    res = list(core.run_pool("vf.props.c09", "list_ids", [{}], nproc=1))[0]
    if not res["ok"]:
        raise RuntimeError(res["tb"])
    ids = res["res"]
    rng = np.random.default_rng(seed)
    if tier == "quick":
        ids = [ids[i] for i in sorted(rng.choice(len(ids), size=min(220, len(ids)), replace=False).tolist())]
        nsh, budget = 16, 150
    else:
        nsh, budget = 64, 400
    shards = [{"kind": "catalog", "ids": ids[i::nsh], "budget_s": budget} for i in range(nsh)]
    shards += [{"kind": "generated", "shard": i, "seed": seed, "examples": 8 if tier == "quick" else 120} for i in range(8 if tier == "quick" else 48)]
    shards += [{"kind": "large", "part": i, "parts": 6} for i in range(6)]
    return shards


def work(sh):
    import time

    from vf import core

    acc = Acc()
    if sh["kind"] == "catalog":
        t0 = time.monotonic()
        for k, cid in enumerate(sh["ids"]):
            if time.monotonic() - t0 > sh["budget_s"]:
                acc.inconclusive += len(sh["ids"]) - k
                break
            try:
                with core.time_limit(120):
                    vs = check_catalog(cid, acc)
            except core.CaseTimeout:
                acc.inconclusive += 1
                vs = []
            if not vs and len(acc.samples) < 1:
                acc.samples.append({"catalog_id": cid, "precisions": ["single", "double"]})
            for v in vs:
                acc.violation(v["sig"], v["case"], v["detail"])
    elif sh["kind"] == "large":
        n = len(large_programs())
        for idx in range(sh["part"], n, sh["parts"]):
            for v in check_large(idx, acc):
                acc.violation(v["sig"], v["case"], v["detail"])
        acc.samples.append({"structure": "large_extent", "programs": [p[0] for p in large_programs()][sh["part"]::sh["parts"]][:5]})
    else:
        import hypothesis
        from hypothesis import HealthCheck, Phase, given, settings, strategies as st
        from vf import progen
        from vf.props import c06, c07

        @hypothesis.seed(derive_seed(sh["seed"], "c09gen", sh["shard"]))
        @settings(max_examples=sh["examples"], deadline=None, database=None, suppress_health_check=list(HealthCheck),
                  phases=[Phase.generate], report_multiple_bugs=False)
        @given(st.one_of(st.tuples(st.just("prog"), progen.programs(max_stmts=7, input_kinds=(progen.F, progen.F, progen.I)), st.sampled_from([None, "float_param"])),
                         st.tuples(st.just("cf"), c06.body_strategy(2, unsupported_p=10**6), st.sampled_from([None, "float_param"])),
                         st.tuples(st.just("hist"), c07.history_strategy(), st.sampled_from(["fn", "uniq"]))))
        def t(c):
            vs = check_generated(c[0], c[1], c[2], acc)
            if not vs and len(acc.samples) < 2:
                acc.samples.append({"structure": c[0], "program": str(c[1])[:240]})
            for v in vs:
                acc.violation(v["sig"], v["case"], v["detail"])

        t()
    return acc.to_dict()


def replay(case):
    if case["kind"] == "catalog":
        return check_catalog(case["id"], None)
    if case["kind"] == "large":
        return check_large(case["idx"], None)
    return check_generated(case["gk"], case["a"], case["b"], None)
