import sys, warnings, inspect, types, collections, time
warnings.filterwarnings("ignore")
sys.path.insert(0,'/tmp/scratch_repo')
import numpy as np, jax, jax.numpy as jnp
import logging; logging.disable(logging.CRITICAL)
import flax, equinox
from flax import nnx, linen
from jax2onnx import to_onnx
import jax2onnx.plugins.plugin_system as ps
from jax2onnx.plugins._patching import MonkeyPatchSpec, AssignSpec
ps.import_all_plugins()
ROOTS=("jax","flax","equinox","dm_pix","einops")
def snap():
    s={}
    for n,m in list(sys.modules.items()):
        if m is None or n.split('.')[0] not in ROOTS: continue
        for k,v in list(vars(m).items()):
            if k.startswith("__") and k.endswith("__"): continue
            s[("mod",n,k)]=id(v)
            if inspect.isclass(v) and (getattr(v,"__module__","") or "").split(".")[0] in ROOTS:
                for kk,vv in list(vars(v).items()):
                    if kk.startswith("__") and kk.endswith("__") and kk not in ("__call__","__init__","__getattr__","__setattr__"): continue
                    s[("cls",v.__module__+"."+v.__qualname__,kk)]=id(vv)
    return s
def diff(a,b):
    ch=[k for k in a if k in b and a[k]!=b[k]]; gone=[k for k in a if k not in b]
    new=[k for k in b if k not in a and not (k[0]=="mod" and isinstance(getattr(sys.modules.get(k[1]),k[2],None),types.ModuleType))]
    return ch,gone,new
f=lambda x: jax.nn.softmax(nnx.relu(x))@x.T
to_onnx(f,[(3,4)])
t0=time.time(); base=snap(); print("snapshot",len(base),round(time.time()-t0,2),"s")
leaf=[(n,p) for n,p in ps.PLUGIN_REGISTRY.items() if isinstance(p,ps.PrimitiveLeafPlugin)]
print("leaf plugins",len(leaf), "with specs", sum(1 for n,p in leaf if p.__class__.binding_specs()))
class Boom(Exception): pass
bad=[]; tested=0
idxs=list(range(0,len(leaf),9))
for k in idxs:
    name,p=leaf[k]; cls=p.__class__
    specs=cls.binding_specs()
    if not specs: continue
    orig_bs=cls.__dict__.get("binding_specs")
    for where in ("first","last"):
        def faulty(c, _specs=specs, _where=where):
            out=list(_specs)
            boom=MonkeyPatchSpec(target="jax.numpy",attr="sin",make_value=lambda o:(_ for _ in ()).throw(Boom()))
            return ([boom]+out) if _where=="first" else (out+[boom])
        cls.binding_specs=classmethod(faulty)
        try:
            try: to_onnx(f,[(3,4)]); res="no raise"
            except Boom: res="raised"
            except Exception as e: res="other:"+type(e).__name__
        finally:
            if orig_bs is not None: cls.binding_specs=orig_bs
            else: del cls.binding_specs
        tested+=1
        ch,gone,new=diff(base,snap())
        if ch or gone or new or ps._PATCH_STATE or jax.config.jax_enable_x64: bad.append((name,where,res,ch[:3],gone[:3],new[:3]))
print("fault points tested",tested,"leaks",len(bad)); 
for b in bad[:10]: print(b)
# sanity afterwards
print(np.asarray(f(np.ones((3,4),np.float32))).sum())
