from jax._src import core as jcore
import jax2onnx.plugins.jax.core.jit as J
def fresh(closed):
    inner = getattr(closed,"jaxpr",closed); consts=getattr(closed,"consts",())
    vm={}
    def fv(v):
        if not isinstance(v,jcore.Var): return v
        if v in vm: return vm[v]
        vm[v]=jcore.Var(v.aval); return vm[v]
    mv=lambda s:[fv(v) for v in s]
    cv=mv(inner.constvars); iv=mv(inner.invars); ov=mv(inner.outvars)
    eq=[e.replace(invars=mv(e.invars), outvars=mv(e.outvars)) for e in inner.eqns]
    cl=jcore.Jaxpr(constvars=cv,invars=iv,outvars=ov,eqns=eq,effects=inner.effects,debug_info=inner.debug_info,is_high=getattr(inner,"is_high",False))
    return jcore.ClosedJaxpr(cl,consts)
J.JitPlugin._freshen_closed_jaxpr=staticmethod(fresh)
