"""Module-level @onnx_function bodies containing an unsupported construct (C16 placement 'function_body')."""
import jax.numpy as jnp
from jax import lax

from jax2onnx import onnx_function

_MODE = {"construct": None, "remove": None}


def _core(v):
    c, r = _MODE["construct"], _MODE["remove"]
    if c == "unknown_primitive":
        from vf.props.c16 import unknown_prim

        return unknown_prim().bind(v)
    if c == "removed_plugin":
        return {"tanh": jnp.tanh, "sin": jnp.sin, "exp": lambda u: jnp.exp(jnp.clip(u, -5, 5)), "logistic": lambda u: lax.logistic(u),
                "erf": lambda u: lax.erf(u), "sqrt": lambda u: jnp.sqrt(jnp.abs(u) + 1.0)}[r](v)
    if c == "switch3":
        return lax.switch(jnp.int32(1) + (v[0] > 100).astype(jnp.int32), [lambda u: u + 1.0, lambda u: u * 2.0, lambda u: u - 3.0], v)
    if c == "reverse_scan":
        return lax.scan(lambda cc, rr: (cc * 0.5 + rr, cc), v, jnp.stack([v, v * 2.0, v * 3.0]), reverse=True)[0]
    if c == "reverse_scan_len":
        (cc, _), ys = lax.scan(lambda cj, _: ((cj[0] * 0.5 + 1.0, cj[1] + 1.0), cj[0] * (cj[1] + 1.0)), (v, jnp.float32(0.0)), None, length=3, reverse=True)
        return cc + ys[0] * 0.25 + ys[2]
    if c == "fori_traced_bounds":
        return lax.fori_loop(0, (v[0] > 100).astype(jnp.int32) + 2, lambda i, cc: cc * 0.5 + 1.0, v)
    raise KeyError(c)


@onnx_function
def unsupported_in_function(x):
    return _core(x) * 0.5 + x


def function_body_fn(construct, remove):
    def fn(x, n, p):
        _MODE["construct"], _MODE["remove"] = construct, remove
        return unsupported_in_function(x) + 1.0

    return fn
