#!/usr/bin/env python3
"""Rewrites the seeded-change table of DESIGN.md §5 (between the markers) from seeded/*/meta.json."""
import glob, json, os, re
ROOT = os.path.dirname(os.path.dirname(os.path.abspath(__file__)))
p = os.path.join(ROOT, "DESIGN.md")
s = open(p).read()
rows = []
cnt = {"yes": 0, "no": 0, "thorough": 0}
first = 0
for d in sorted(glob.glob(os.path.join(ROOT, "seeded", "*", "meta.json"))):
    m = json.load(open(d))
    cnt[m["detected_by_check"]] = cnt.get(m["detected_by_check"], 0) + 1
    if not m["detection_notes"].lower().startswith("missed") and m["detected_by_check"] == "yes":
        first += 1
    rows.append(f"| {m['property']} | `{m['slug']}` | {m['detected_by_check']} | {m['detection_notes']} |")
table = "| Prop | change | detected | how / what was strengthened |\n|---|---|---|---|\n" + "\n".join(rows)
summary = (f"\n\nOf the {len(rows)} seeded changes, {first} were caught by the first version of the check, "
           f"{cnt['yes'] - first} after strengthening a generator or an oracle (each strengthening is general, not a special case for the seeded input), "
           f"{cnt.get('thorough', 0)} only by the thorough tier or a neighbouring property's check, and {cnt.get('no', 0)} are not caught.\n")
begin, end = "<!-- SEEDED-TABLE-BEGIN -->", "<!-- SEEDED-TABLE-END -->"
if begin in s:
    s = s[: s.index(begin) + len(begin)] + "\n" + table + summary + s[s.index(end):]
else:
    i0 = s.index("| Prop | change | detected |")
    i1 = s.index("Own mutation experiments")
    s = s[:i0] + begin + "\n" + table + summary + end + "\n\n" + s[i1:]
# ---- results at a glance (§0.3) from the committed evidence and known-finding files
rb, re_ = "<!-- RESULTS-TABLE-BEGIN -->", "<!-- RESULTS-TABLE-END -->"
res_rows = []
for i in range(1, 20):
    pid = f"C{i:02d}"
    ev_path = os.path.join(ROOT, "evidence", pid + ".json")
    kf_path = os.path.join(ROOT, "known_findings", pid + ".json")
    ev = json.load(open(ev_path)) if os.path.exists(ev_path) else {}
    cov = ev.get("coverage", {})
    kf = json.load(open(kf_path))["entries"] if os.path.exists(kf_path) else []
    nopen = sum(1 for e in kf if e["status"] == "open")
    nfixed = sum(1 for e in kf if e["status"] == "fixed")
    ncorp = len(glob.glob(os.path.join(ROOT, "corpus", pid, "*.json")))
    res_rows.append(f"| {pid} | {ev.get('tier', '?')} / seed {ev.get('seed', '?')} | {cov.get('evaluations', '?')} | {cov.get('distinct_nontrivial', '?')} | "
                    f"{ev.get('violations', '?') if not isinstance(ev.get('violations'), list) else len(ev['violations'])} | {nopen} | {nfixed} | {ncorp} |")
res_table = ("| Prop | evidence from | evaluations | distinct non-trivial | new violations | open findings (replayed, `KNOWN-FINDING`) | fixed entries | corpus cases |\n"
             "|---|---|---|---|---|---|---|---|\n" + "\n".join(res_rows))
if rb in s:
    s = s[: s.index(rb) + len(rb)] + "\n" + res_table + "\n" + s[s.index(re_):]
open(p, "w").write(s)
print(len(rows), cnt, "first-version:", first)
