"""Child process of C14: one history (import order, request order, interleaved failures) under one PYTHONHASHSEED.
usage: python -m vf.props.c14_child <requests.json> <config.json>  -> JSON on stdout: {request_id: [digest per position]}"""
import hashlib
import importlib
import json
import logging
import random
import sys
import warnings

warnings.filterwarnings("ignore")
logging.disable(logging.CRITICAL)


def main():
    reqs = json.load(open(sys.argv[1]))
    cfg = json.load(open(sys.argv[2]))
    from pathlib import Path

    import numpy as np
    import jax
    import jax.numpy as jnp
    import jax2onnx.plugins.plugin_system as ps

    if cfg.get("import_perm") is not None:
        root = Path(ps.__file__).parent
        mods = []
        for py in root.rglob("*.py"):
            if py.name in {"plugin_system.py", "__init__.py"}:
                continue
            mods.append(".".join(["jax2onnx.plugins"] + list(py.relative_to(root).with_suffix("").parts)))
        mods = sorted(mods)
        random.Random(cfg["import_perm"]).shuffle(mods)
        for m in mods:
            try:
                importlib.import_module(m)
            except Exception:
                pass
    ps.import_all_plugins()
    from vf import blocks, catalog, jaxutil, progen
    from vf.props import c06, c16, c16_blocks  # noqa: F401

    S = jax.ShapeDtypeStruct

    def run(req):
        k = req["kind"]
        if k == "catalog":
            p = catalog.prepare(catalog.by_id(req["id"]))
            return jaxutil.to_onnx(p.fn, p.specs, **p.kw)
        if k == "prog":
            return jaxutil.to_onnx(progen.build(req["prog"]), progen.input_specs_for_export(req["prog"]))
        if k == "hist":
            return jaxutil.to_onnx(blocks.build(req["history"], req["variant"]), [("B", 4)] if req.get("sym") else [(3, 4)])
        if k == "cf":
            return jaxutil.to_onnx(c06.make_fn(req["body"], req.get("stacked", False)),
                                   [S((3,), np.float32), S(("T" if req.get("sym") else 2, 3), np.float32), S((), np.int32), S((), np.bool_)])
        if k == "fnmode":
            # the module-level function whose body fails for other requests (see fail()): here its body is supported
            return jaxutil.to_onnx(c16.make_unsupported("removed_plugin", "function_body", req["core"]), [S((3,), np.float32), S((), np.int32), S((), np.bool_)])
        if k == "nchw":
            from vf.props import c12

            fn = c12.make_fn(req["pg"])
            ins, _ = c12.io_desc(req["pg"])
            return jaxutil.to_onnx(fn, [S(s, np.float32) for s in ins], inputs_as_nchw=[0], outputs_as_nchw=None)
        raise KeyError(k)

    def fail(i):
        try:
            which = i % 3
            if which == 0:
                jaxutil.to_onnx(c16.make_unsupported("unknown_primitive", "scan_body"), [S((3,), np.float32), S((), np.int32), S((), np.bool_)])
            elif which == 1:
                def boom(x):
                    jnp.sin(x)
                    raise RuntimeError("user error")

                jaxutil.to_onnx(boom, [(3,)])
            else:
                jaxutil.to_onnx(c16.make_unsupported("switch3", "function_body"), [S((3,), np.float32), S((), np.int32), S((), np.bool_)])
        except Exception:
            pass

    order = list(range(len(reqs)))
    if cfg.get("order_seed") is not None:
        random.Random(cfg["order_seed"]).shuffle(order)
    # every request at two history positions
    schedule = order + list(reversed(order)) if cfg.get("repeat", True) else order
    out = {}
    for pos, idx in enumerate(schedule):
        req = reqs[idx]
        if cfg.get("failures") and pos % 4 == 1:
            fail(pos)
        if cfg.get("eager_between") and pos % 5 == 2:
            try:
                jax.jit(lambda x: jnp.tanh(x) @ x.T)(jnp.ones((3, 3)))
            except Exception:
                pass
        try:
            m = run(req)
            if hasattr(m, "ByteSize") and m.ByteSize() > 40_000_000:
                d = "big"
            else:
                d = hashlib.sha256(m.SerializeToString(deterministic=True)).hexdigest()[:20]
        except Exception as e:
            d = "ERR " + type(e).__name__
        out.setdefault(req["rid"], []).append(d)
    sys.stdout.write("C14RESULT " + json.dumps({"out": out, "first_registry_keys": [str(k) for k in list(ps.PLUGIN_REGISTRY)[:3]]}) + "\n")


if __name__ == "__main__":
    main()
