"""C06 — control flow is preserved for every branch choice and trip count.

Programs are JSON body trees over cond / 2-way switch / while / fori / scan (carry-only, scanned
input, two carries + two scanned inputs + stacked outputs), nested to depth 3, bodies drawn from an
arithmetic vocabulary that captures constants, outer tracers, the loop index and scan rows.
One export, then a steering sweep over predicate, bound n and (symbolic) sequence length T.
Unsupported variants (3-way switch, reverse scan, traced fori bounds) must raise or be correct.
"""

from __future__ import annotations

import itertools

import numpy as np

from vf.core import Acc, derive_seed, digest

PROPERTY = "C06"
LEVEL = "exploration"
RULE = (
    "Hypothesis-generated control-flow programs (cond, 2-way switch with clamped index, while with data-dependent bound, fori with static "
    "bounds incl. empty/offset, scan with 0-2 scanned inputs, 1-2 carries, stacked outputs, static or symbolic length; nesting depth<=3; bodies "
    "capture constants, outer tracers, loop index, scan row) exported once and executed for every steering input: predicate in {F,T}, bound n in "
    "{-1,0,1,2,5}, sequence length T in {0,1,2,4} when symbolic. Oracle: eager JAX (carried values, stacked outputs, shapes incl. zero-length "
    "stacks). Unsupported variants (3-way switch, reverse scan, traced fori bounds) generated with low probability: export must raise or the "
    "model must be correct. non-trivial = steering input other than the benign one (T=2,n=2,p=True) or nesting depth>=2; distinct by (program digest, steering input)."
)
ASSUMPTIONS = [
    "eager JAX is the reference for branch choice and trip count",
    "steering inputs for which the JAX result is non-finite are skipped (masked domain)",
    "a loud export-time rejection is an allowed outcome for any construct (counted per construct in evidence)",
]

ARITH = ["c*0.5+k", "jnp.sin(c)+1.0", "c+CONST", "c*c*0.25-k", "jnp.where(c>k,c,k*0.5)", "c+xrow", "c+i", "jnp.tanh(c)*2.0", "c-jnp.sum(k)",
         "jnp.maximum(c,k)-0.5", "c*jnp.float32(0.9)+xrow*0.1", "c*0.5+i", "c*0.75-k+i", "c+ydim", "c*0.5-ydim"]
CONST = np.array([0.25, -1.0, 2.0], np.float32)
KINDS = ("arith", "seq", "cond", "switch2", "while", "fori", "scan_y", "scan_len", "scan2", "switch3", "scan_rev", "fori_dyn", "while_data",
         "while2", "scan_rev_len", "while_cc")
UNSUPPORTED = ("switch3", "scan_rev", "fori_dyn", "scan_rev_len")


def body_strategy(depth, unsupported_p=40):
    from hypothesis import strategies as st

    a = st.tuples(st.just("arith"), st.sampled_from(ARITH)).map(list)
    if depth == 0:
        return a
    sub = body_strategy(depth - 1, unsupported_p)
    supported = [
        a,
        st.tuples(st.just("seq"), sub, sub).map(list),
        st.tuples(st.just("cond"), st.sampled_from(["p", "jnp.sum(c)>0.0", "n>1", "jnp.logical_not(p)"]), sub, sub).map(list),
        st.tuples(st.just("switch2"), st.sampled_from(["n", "n-1"]), sub, sub).map(list),
        st.tuples(st.just("while"), st.sampled_from(["n", "n-1", "2"]), sub).map(list),
        st.tuples(st.just("while_data"), st.sampled_from([1.5, 4.0, 0.1]), sub).map(list),
        st.tuples(st.just("fori"), st.sampled_from([[0, 0], [0, 1], [0, 3], [2, 5], [3, 3], [-3, 1], [-1, 0], [-2, 3], [-4, -2]]),
                  st.one_of(sub, st.tuples(st.just("arith"), st.sampled_from(["c+i", "c*0.5+i", "c*0.75-k+i", "c+ydim", "c*0.5-ydim"])).map(list))).map(list),
        st.tuples(st.just("scan_y"), sub).map(list),
        st.tuples(st.just("scan_len"), st.sampled_from([0, 1, 3]), sub).map(list),
        st.tuples(st.just("scan2"), sub).map(list),
        st.tuples(st.just("while2"), st.sampled_from(["n", "n-1", "2"]), st.sampled_from(["fib", "rotate", "keep"]), sub).map(list),
        st.tuples(st.just("while_cc"), st.sampled_from([3.0, 40.0, -1.0]), sub).map(list),
    ]
    unsupported = [
        st.tuples(st.just("switch3"), st.sampled_from(["n", "n-1"]), sub, sub, sub).map(list),
        st.tuples(st.just("scan_rev"), sub).map(list),
        st.tuples(st.just("fori_dyn"), sub).map(list),
        st.tuples(st.just("scan_rev_len"), st.sampled_from([1, 2, 4]), sub).map(list),
    ]
    return st.integers(0, unsupported_p).flatmap(lambda r: st.one_of(*unsupported) if r == 0 else st.one_of(*supported))


def run_body(b, c, env):
    import jax.numpy as jnp
    from jax import lax

    t = b[0]
    if t == "arith":
        e = b[1]
        if "xrow" in e and env.get("xrow") is None:
            e = e.replace("xrow", "k")
        if "+i" in e and env.get("i") is None:
            e = e.replace("+i", "+1.0")
        if "-i" in e and env.get("i") is None:
            e = e.replace("-i", "-1.0")
        if "ydim" in e:
            # a derived dimension expression of the (possibly symbolic) sequence length, evaluated inside the body
            yd = jnp.asarray(env["y"].shape[0] * 2 + 1).astype(c.dtype) * 0.01
        else:
            yd = None
        loc = dict(c=c, k=env["k"], n=env["n"], p=env["p"], jnp=jnp, CONST=jnp.asarray(CONST), xrow=env.get("xrow"), ydim=yd,
                   i=(env.get("i").astype(jnp.float32) if env.get("i") is not None else None))
        return eval(e, loc)
    if t == "seq":
        return run_body(b[2], run_body(b[1], c, env), env)
    if t == "cond":
        pred = eval(b[1], dict(c=c, n=env["n"], p=env["p"], jnp=jnp))
        return lax.cond(pred, lambda v: run_body(b[2], v, env), lambda v: run_body(b[3], v, env), c)
    if t == "switch2":
        idx = eval(b[1], dict(n=env["n"]))
        return lax.switch(idx, [lambda v: run_body(b[2], v, env), lambda v: run_body(b[3], v, env)], c)
    if t == "switch3":
        idx = eval(b[1], dict(n=env["n"]))
        return lax.switch(idx, [lambda v: run_body(b[2], v, env), lambda v: run_body(b[3], v, env), lambda v: run_body(b[4], v, env)], c)
    if t == "while":
        bound = jnp.asarray(eval(b[1], dict(n=env["n"])), jnp.int32)

        def bd(st_):
            v, j = st_
            return run_body(b[2], v, dict(env, i=j)), j + 1

        return lax.while_loop(lambda st_: st_[1] < bound, bd, (c, jnp.int32(0)))[0]
    if t == "while2":
        bound = jnp.asarray(eval(b[1], dict(n=env["n"])), jnp.int32)
        mode = b[2]

        def bd3(st_):
            u, v, j = st_
            nu = run_body(b[3], u, dict(env, i=j))
            if mode == "fib":
                return v, nu * 0.5 + v, j + 1  # an incoming carry moves to another slot
            if mode == "rotate":
                return v, u, j + 1
            return nu, v, j + 1

        u, v, _ = lax.while_loop(lambda st_: st_[2] < bound, bd3, (c, c * 0.5 + 1.0, jnp.int32(0)))
        return u + 2.0 * v
    if t == "scan_rev_len":
        def step_rl(carry, _):
            v, j = carry
            nv = run_body(b[2], v, dict(env, i=j))
            return (nv, j + 1), nv * (j.astype(jnp.float32) + 1.0)

        (v, _), ys = lax.scan(step_rl, (c, jnp.int32(0)), None, length=b[1], reverse=True)
        w = jnp.arange(1, b[1] + 1, dtype=jnp.float32)[:, None]
        return v + jnp.sum(ys * w, axis=0)  # order-sensitive use of the stacked outputs
    if t == "while_cc":
        # the condition and the body each close over a *traced* value, and the two have different shapes:
        # cond reads the (T,3) matrix y, body reads the (3,) vector k and a (1,) slice of it
        lim, ymat, kvec = b[1], env["y"], env["k"]
        tip = kvec[:1] * 0.25

        def bd_cc(st_):
            v, j = st_
            return run_body(b[2], v, dict(env, i=j)) * 0.5 + kvec * 0.1 + tip, j + 1

        return lax.while_loop(lambda st_: jnp.logical_and(jnp.sum(st_[0]) < lim + jnp.sum(ymat) * 0.01, st_[1] < 5), bd_cc, (c, jnp.int32(0)))[0]
    if t == "while_data":
        thr = b[1]

        def bd2(st_):
            v, j = st_
            return run_body(b[2], v, dict(env, i=j)) * 0.5, j + 1

        # data-dependent exit with a hard cap so every input terminates
        return lax.while_loop(lambda st_: jnp.logical_and(jnp.max(jnp.abs(st_[0])) > thr, st_[1] < 6), bd2, (c, jnp.int32(0)))[0]
    if t == "fori":
        lo, hi = b[1]
        # fori_loop bodies that close over outer *traced* values are rejected by the converter (loud, counted);
        # give the body a closed environment so that counted loops are actually exercised
        closed = dict(env, k=jnp.asarray(CONST) * 0.5, y=jnp.full((2, 3), 0.3, jnp.float32), n=jnp.int32(2), p=jnp.asarray(True), xrow=None)
        return lax.fori_loop(lo, hi, lambda j, v: run_body(b[2], v, dict(closed, i=j)), c)
    if t == "fori_dyn":
        return lax.fori_loop(0, env["n"], lambda j, v: run_body(b[1], v, dict(env, i=j)), c)
    if t == "scan_y":
        def step(v, row):
            nv = run_body(b[1], v, dict(env, xrow=row))
            return nv, nv.sum()

        out, ys = lax.scan(step, c, env["y"])
        return out + jnp.sum(ys)
    if t == "scan_rev":
        def step_r(v, row):
            nv = run_body(b[1], v, dict(env, xrow=row))
            return nv, nv.sum()

        out, ys = lax.scan(step_r, c, env["y"], reverse=True)
        return out + jnp.sum(ys)
    if t == "scan_len":
        def step2(v, _):
            return run_body(b[2], v, env), None

        return lax.scan(step2, c, None, length=b[1])[0]
    if t == "scan2":
        def step3(carry, rows):
            v, w = carry
            r1, r2 = rows
            nv = run_body(b[1], v, dict(env, xrow=r1))
            nw = w * 0.5 + r2
            return (nv, nw), (nv + nw, r1.sum())

        (v, w), (ys, ss) = lax.scan(step3, (c, c * 0.0), (env["y"], env["y"] * 2.0 - 1.0))
        return v + w + jnp.sum(ys, axis=0) * 0.1 + jnp.sum(ss)
    raise KeyError(t)


def kinds(b, acc, d=0):
    if b[0] != "arith":
        acc[b[0]] = acc.get(b[0], 0) + 1
        acc["depth"] = max(acc.get("depth", 0), d + (0 if b[0] == "seq" else 1))
    for x in b[1:]:
        if isinstance(x, list) and x and isinstance(x[0], str) and x[0] in KINDS:
            kinds(x, acc, d + (0 if b[0] == "seq" else 1))
    return acc


def make_fn(b, stacked):
    import jax.numpy as jnp
    from jax import lax

    def fn(x, y, n, p):
        env = dict(k=y.sum(axis=0) * 0.1 + 0.5 if y.shape[0] != 0 else jnp.full((3,), 0.5), n=n, p=p, y=y)
        out = run_body(b, x, env)
        if "ydim" in str(b):
            # the same derived dimension expression again in the enclosing graph, after the control-flow node
            out = out + jnp.asarray(y.shape[0] * 2 + 1).astype(out.dtype) * 0.01
        if stacked is True or stacked == "xs":
            def st_(v, row):
                nv = v * 0.5 + row
                return nv, nv * 2.0

            fin, ys = lax.scan(st_, out, y)
            return fin, ys
        if isinstance(stacked, str) and stacked.startswith("len"):
            L = int(stacked[3:])

            def st2(v, _):
                nv = v * 0.5 + 1.0
                return nv, (nv * 2.0, jnp.sum(nv))

            fin, (ys, ss) = lax.scan(st2, out, None, length=L)
            return fin, ys, ss
        return out

    return fn


def nesting_string(b):
    if b[0] == "arith":
        return ""
    subs = [nesting_string(x) for x in b[1:] if isinstance(x, list) and x and isinstance(x[0], str) and x[0] in KINDS]
    inner = max(subs, key=len) if subs else ""
    if b[0] == "seq":
        return inner
    return b[0] + (">" + inner if inner else "")


def _same_failure(b, symT, stacked, steer1, facet):
    try:
        r = check_case(b, symT, stacked, None, steer=[steer1], _minimise=False)
    except Exception:
        return False
    return bool(r) and r[0]["sig"].get("facet") == facet


def _shrink_body(b, still_fails, budget=25):
    """Greedy: replace sub-bodies by an arithmetic leaf / hoist a child while the same failure persists."""
    leaf = ["arith", "c*0.5+k"]
    cur = b
    changed = True
    while changed and budget > 0:
        changed = False
        for idx, x in enumerate(cur):
            if isinstance(x, list) and x and isinstance(x[0], str) and x[0] in KINDS:
                for cand in ([x] if x[0] != "arith" else []) + [cur[:idx] + [leaf] + cur[idx + 1:]]:
                    if cand == cur or budget <= 0:
                        continue
                    budget -= 1
                    if still_fails(cand):
                        cur, changed = cand, True
                        break
                if changed:
                    break
    return cur


def check_case(b, symT, stacked, acc=None, steer=None, _minimise=True):
    import jax
    import jax.numpy as jnp
    import onnx
    from vf import jaxutil, onnxutil

    out = []
    S = jax.ShapeDtypeStruct
    fn = make_fn(b, stacked)
    kd = kinds(b, {})
    has_unsupported = any(k in kd for k in UNSUPPORTED)
    case = {"kind": "cf", "body": b, "symT": symT, "stacked": stacked}
    specs = [S((3,), np.float32), S(("T" if symT else 2, 3), np.float32), S((), np.int32), S((), np.bool_)]
    try:
        m = jaxutil.to_onnx(fn, specs)
    except Exception as e:
        if acc:
            acc.tally("export", "rejected_unsupported" if has_unsupported else "rejected_supported")
            acc.tally("rejected_reasons", f"{type(e).__name__}: {str(e)[:80]}")
            for k in kd:
                if k != "depth":
                    acc.tally("rejected_by_construct", k)
            acc.case()
        return out
    if acc:
        acc.tally("export", "returned_with_unsupported_construct" if has_unsupported else "ok")
    try:
        sess = onnxutil.session(m)
    except Exception as e:
        out.append({"sig": {"kind": "ort_load_error", "nesting": nesting_string(b)}, "case": case, "detail": str(e)[:300]})
        return out
    x = np.array([0.5, -1.5, 2.0], np.float32)
    Ts = (0, 1, 2, 4) if symT else (2,)
    combos = steer or list(itertools.product(Ts, (0, 1, 2, 5, -1), (False, True)))
    names = {i.name for i in sess.get_inputs()}
    for T, n, p in combos:
        y = np.arange(T * 3, dtype=np.float32).reshape(T, 3) * 0.3 - 0.4
        feeds = dict(in_0=x, in_1=y, in_2=np.asarray(n, np.int32), in_3=np.asarray(bool(p)))
        try:
            exp = jaxutil.flatten(fn(jnp.asarray(x), jnp.asarray(y), jnp.int32(n), jnp.asarray(bool(p))))
        except Exception:
            if acc:
                acc.tally("steer", "jax_rejects_input")
            continue
        if not all(np.isfinite(e).all() for e in exp):
            if acc:
                acc.tally("steer", "nonfinite_skip")
            continue
        benign = (T == 2 and n == 2 and p)
        steering_class = ("zero_len" if T == 0 else "") + ("neg_n" if n < 0 else ("zero_n" if n == 0 else ("one_n" if n == 1 else ""))) or "general"
        try:
            got = sess.run(None, {k: v for k, v in feeds.items() if k in names})
        except Exception as e:
            out.append({"sig": {"kind": "ort_runtime_error", "nesting": nesting_string(b), "steering_class": steering_class},
                        "case": dict(case, steer=[[T, n, bool(p)]]), "detail": f"T={T},n={n},p={p}: {str(e)[:250]}"})
            break
        if acc:
            acc.case(key=("cf", digest([b, symT, stacked]), T, n, bool(p)), nontrivial=(not benign) or kd.get("depth", 0) >= 2)
            acc.tally("steer", "run")
        bad = None
        facet = "values"
        if len(got) != len(exp):
            bad = f"{len(got)} outputs vs {len(exp)}"
            facet = "count"
        else:
            for g, e_ in zip(got, exp):
                if g.shape != e_.shape:
                    bad = f"shape {g.shape} vs {e_.shape}"
                    facet = "zero_length_stack_shape" if (len(e_.shape) >= 1 and e_.shape[0] == 0 and g.shape[:1] == (0,)) else "shape"
                    break
                if not np.allclose(g, e_, rtol=2e-4, atol=2e-5 * max(1.0, float(np.abs(e_).max()) if e_.size else 1.0)):
                    bad = f"values {np.asarray(g).reshape(-1)[:3].tolist()} vs {np.asarray(e_).reshape(-1)[:3].tolist()}"
                    break
        if bad:
            sig = {"kind": "value", "facet": facet, "nesting": nesting_string(b), "steering_class": steering_class, "unsupported": has_unsupported,
                   "wrapper": str(stacked)}
            vcase = dict(case, steer=[[T, n, bool(p)]])
            if _minimise and b[0] != "arith":
                # does the divergence need the generated body at all?  (keeps signatures about the construct that matters)
                trivial = ["arith", "c*0.5+k"]
                sub = check_case(trivial, symT, stacked, None, steer=[(T, n, p)], _minimise=False)
                if sub and sub[0]["sig"]["facet"] == facet:
                    sig = dict(sub[0]["sig"])
                    vcase = sub[0]["case"]
                else:
                    small = _shrink_body(b, lambda bb: _same_failure(bb, symT, stacked, (T, n, p), facet))
                    sig["nesting"] = nesting_string(small)
                    vcase = dict(vcase, body=small)
            out.append({"sig": sig, "case": vcase, "detail": f"T={T},n={n},p={p}: {bad}"})
            break
    return out


def plan(tier, seed):
    n = 16 if tier == "quick" else 64
    ex = 9 if tier == "quick" else 50
    return [{"kind": "cf", "shard": i, "seed": seed, "examples": ex} for i in range(n)]


def work(sh):
    import hypothesis
    from hypothesis import HealthCheck, Phase, given, settings, strategies as st

    acc = Acc()

    @hypothesis.seed(derive_seed(sh["seed"], "c06", sh["shard"]))
    @settings(max_examples=sh["examples"], deadline=None, database=None, suppress_health_check=list(HealthCheck),
              phases=[Phase.generate], report_multiple_bugs=False)
    @given(body_strategy(3), st.booleans(), st.sampled_from([False, False, "xs", "len0", "len1", "len3"]))
    def t(b, symT, stacked):
        kd = kinds(b, {})
        if not any(k for k in kd if k not in ("depth", "seq")):
            acc.count("trivial_no_control_flow")
            acc.case()
            return
        for k, v in kd.items():
            if k != "depth":
                acc.tally("constructs", k)
        acc.tally("depth", str(kd.get("depth", 0)))
        vs = check_case(b, symT, stacked, acc)
        if not vs and len(acc.samples) < 2:
            acc.samples.append({"nesting": nesting_string(b), "symbolic_T": symT, "stacked_outputs": stacked, "body": b if len(str(b)) < 400 else str(b)[:400]})
        for v in vs:
            acc.violation(v["sig"], v["case"], v["detail"])

    t()
    return acc.to_dict()


def replay(case):
    steer = [tuple(s) for s in case["steer"]] if case.get("steer") else None
    return check_case(case["body"], case["symT"], case["stacked"], None, steer=steer)
