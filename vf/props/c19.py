"""C19 — library calls keep their call signature while being traced.

Level 1 (binder, exhaustive): every tracing-time substitute (all MonkeyPatchSpecs of all leaf plugins)
x call forms generated from the *original* function's signature; whenever the original's signature
binds a form, the substitute's must bind it too.
Level 2 (semantic, recorded base calls): the arguments each plugin's own testcases pass to the
substitute are recorded during a traced run, re-expressed (all-keyword, explicit defaults,
all-positional) and exported as single-call programs; the result must equal the original function's
eager result, or the export must raise a non-binding error.
"""

from __future__ import annotations

import inspect
import sys

import numpy as np

from vf.core import Acc, derive_seed, digest

PROPERTY = "C19"
LEVEL = "exploration"
RULE = (
    "substitutes enumerated from the working tree (every MonkeyPatchSpec of every registered leaf plugin). Level 1: for each substitute, call "
    "forms generated from inspect.signature(original): required-only, all-required-by-keyword, and for every optional parameter the parameter "
    "passed by keyword and (where allowed) positionally; oracle: original.bind(form) succeeds => substitute.bind(form) succeeds. Level 2: for "
    "substitutes whose plugin testcases exercise them, the recorded real arguments are re-expressed as all-keyword / explicit-defaults / "
    "all-positional calls in a single-call program, exported and compared with the eager original on the testcase's own inputs; a TypeError "
    "about argument binding is a bind_failure, a differing result a wrong_result, any other raise an explicit rejection (allowed). non-trivial = "
    "call form differing from the bare required-only form; distinct by (substitute, form)."
)
ASSUMPTIONS = [
    "inspect.signature of the original library function describes the calls it accepts outside conversion (syntactic validity)",
    "re-expressions of one bound argument set must behave identically; the author's recorded call is the valid base call",
    "an explicit non-binding error at export time is an allowed rejection",
]

S = object()
BINDING_WORDS = ("unexpected keyword", "positional argument", "missing", "multiple values", "got an unexpected", "takes")


_SUBS = None
_REC = {}


def substitutes():
    global _SUBS
    if _SUBS is None:
        _SUBS = _substitutes()
    return _SUBS


def _substitutes():
    from jax2onnx.plugins._patching import MonkeyPatchSpec, _resolve
    from jax2onnx.plugins.plugin_system import PLUGIN_REGISTRY, PrimitiveLeafPlugin, import_all_plugins

    import_all_plugins()
    subs = []
    for name, pl in sorted(PLUGIN_REGISTRY.items(), key=lambda kv: str(kv[0])):
        if not isinstance(pl, PrimitiveLeafPlugin):
            continue
        try:
            specs = pl.__class__.binding_specs()
        except Exception:
            continue
        for s in specs:
            if isinstance(s, MonkeyPatchSpec):
                try:
                    tgt = _resolve(s.target)
                    orig = getattr(tgt, s.attr, None)
                    if orig is None or not callable(orig):
                        continue
                    sub = s.make_value(orig)
                    if not callable(sub):
                        continue
                    subs.append((f"{getattr(tgt, '__module__', '')}.{getattr(tgt, '__name__', tgt)}.{s.attr}" if not inspect.ismodule(tgt) else f"{tgt.__name__}.{s.attr}", orig, sub, str(name)))
                except Exception:
                    continue
    # one entry per distinct (qualified name): several plugins may patch the same attribute
    seen = {}
    for qn, orig, sub, pn in subs:
        seen.setdefault((qn, pn), (qn, orig, sub, pn))
    return sorted(seen.values(), key=lambda t: (t[0], t[3]))


def forms(sig):
    ps = [p for p in sig.parameters.values()]
    base = [p for p in ps if p.kind in (p.POSITIONAL_ONLY, p.POSITIONAL_OR_KEYWORD, p.KEYWORD_ONLY)]
    req = [p for p in base if p.default is p.empty]

    def build(choice):
        args, kw = [], {}
        positional_open = True
        for p in base:
            c = choice.get(p.name, "omit" if p.default is not p.empty else ("pos" if p.kind != p.KEYWORD_ONLY else "kw"))
            if c == "omit":
                positional_open = False
                continue
            if c == "pos" and positional_open and p.kind != p.KEYWORD_ONLY:
                args.append(S)
            elif p.kind == p.POSITIONAL_ONLY:
                return None
            else:
                kw[p.name] = S
                positional_open = False
        return tuple(args), kw

    out = [("-", "required_only", build({})), ("-", "all_required_by_kw", build({p.name: "kw" for p in req}))]
    for p in base:
        if p.default is p.empty:
            continue
        out.append((p.name, "kw", build({p.name: "kw"})))
        ch = {}
        for q in base:
            if q.kind == q.KEYWORD_ONLY:
                break
            ch[q.name] = "pos"
            if q.name == p.name:
                break
        if p.kind != p.KEYWORD_ONLY:
            out.append((p.name, "pos", build(ch)))
    return [(n, f, x) for n, f, x in out if x is not None]


def check_binder(qn, orig, sub, plugin, acc=None):
    out = []
    try:
        so = inspect.signature(orig)
        ss = inspect.signature(sub)
    except (TypeError, ValueError):
        if acc:
            acc.tally("binder", "no_signature")
        return out
    for pname, form, (a, k) in forms(so):
        try:
            so.bind(*a, **k)
        except TypeError:
            continue
        if acc:
            acc.case(key=("binder", qn, plugin, pname, form), nontrivial=(form != "required_only"))
        try:
            ss.bind(*a, **k)
        except TypeError as e:
            out.append({"sig": {"kind": "bind_failure", "substitute": qn, "parameter": pname, "form": form},
                        "case": {"kind": "binder", "substitute": qn, "plugin": plugin, "parameter": pname, "form": form},
                        "detail": f"{qn}{so} accepts the form, the tracing-time substitute {ss} does not: {str(e)[:120]}"})
    if acc:
        acc.tally("binder", "substitutes_checked")
    return out


# ------------------------------------------------------------------ level 2


def record_calls(plugin_names, limit_tc=2):
    """Runs the plugins' own testcases with every substitute wrapped by a recorder. Returns {qn: (args, kwargs, plugin)}."""
    import functools
    from contextlib import contextmanager

    import jax
    import jax2onnx.plugins._patching as pt
    import jax2onnx.plugins.plugin_system as ps
    from jax2onnx.plugins._patching import MonkeyPatchSpec, _resolve
    from vf import catalog, jaxutil

    rec = {}
    current = [None]
    orig_apply = pt.apply_patches

    @contextmanager
    def rec_apply(specs):
        new = []
        for s in specs:
            if isinstance(s, MonkeyPatchSpec):
                tgt = _resolve(s.target)
                qn = f"{tgt.__name__}.{s.attr}" if inspect.ismodule(tgt) else f"{getattr(tgt, '__module__', '')}.{getattr(tgt, '__name__', tgt)}.{s.attr}"

                def mk(orig, _mv=s.make_value, _qn=qn, _tgt=tgt, _attr=s.attr):
                    sub = _mv(orig)
                    if not callable(sub) or inspect.isclass(sub):
                        return sub

                    @functools.wraps(sub)
                    def w(*a, **k):
                        if _qn not in rec:
                            rec[_qn] = (a, k, _tgt, _attr, current[0])
                        return sub(*a, **k)

                    return w

                new.append(MonkeyPatchSpec(s.target, s.attr, mk, s.delete_if_missing))
            else:
                new.append(s)
        with orig_apply(new):
            yield

    ps.apply_patches = rec_apply
    try:
        for c in catalog.cases():
            pn = c["id"].split("#")[0]
            if plugin_names is not None and pn not in plugin_names:
                continue
            if int(c["id"].rsplit("#", 1)[1]) >= limit_tc:
                continue
            p = catalog.prepare(c)
            if p is None or p.factory is not None:
                continue
            current[0] = pn
            try:
                jaxutil.to_onnx(p.fn, p.specs, **p.kw)
            except Exception:
                pass
    finally:
        ps.apply_patches = orig_apply
    return rec


def is_tr(x):
    return hasattr(x, "aval") and not isinstance(x, (np.ndarray, np.generic))


def check_semantic(qn, call, acc=None):
    import jax
    import jax.numpy as jnp
    from vf import jaxutil, onnxutil

    out = []
    a, k, tgt, attr, owner = call
    orig = getattr(tgt, attr)
    try:
        sig = inspect.signature(orig)
    except Exception:
        return out
    if inspect.isclass(tgt):
        return out  # bound-method substitutes need an instance: covered by level 1 only
    if any(isinstance(x, (list, tuple, dict)) and any(is_tr(y) for y in jax.tree_util.tree_leaves(x)) for x in list(a) + list(k.values())):
        if acc:
            acc.tally("semantic", "nested_tracers_skipped")
        return out
    try:
        ba = sig.bind(*a, **k)
    except TypeError:
        if acc:
            acc.tally("semantic", "recorded_call_not_bindable_by_original")
        return out
    tr_names = [n for n, v in ba.arguments.items() if is_tr(v)]
    if not tr_names:
        return out
    params = sig.parameters
    if any(params[n].kind in (inspect.Parameter.VAR_POSITIONAL, inspect.Parameter.VAR_KEYWORD) for n in ba.arguments):
        if acc:
            acc.tally("semantic", "varargs_skipped")
        return out
    avals = {n: ba.arguments[n].aval for n in tr_names}
    static_args = {n: v for n, v in ba.arguments.items() if not is_tr(v)}
    specs = [jax.ShapeDtypeStruct(avals[n].shape, avals[n].dtype) for n in tr_names]
    if any(not all(isinstance(d, int) for d in s.shape) for s in specs):
        if acc:
            acc.tally("semantic", "symbolic_skipped")
        return out

    def make_prog(form):
        def prog(*xs):
            vals = dict(static_args)
            vals.update(dict(zip(tr_names, xs)))
            f = getattr(tgt, attr)
            if form == "author":
                b2 = sig.bind_partial()
                pos = [vals[n] for n in params if n in vals and params[n].kind in (inspect.Parameter.POSITIONAL_ONLY,)]
                kw = {n: v for n, v in vals.items() if params[n].kind != inspect.Parameter.POSITIONAL_ONLY}
                # author's own split between positional and keyword
                na = len(a)
                names = [n for n in params if n in vals]
                return f(*[vals[n] for n in names[:na]], **{n: vals[n] for n in names[na:]})
            if form == "all_kw":
                pos = [vals[n] for n in vals if params[n].kind == inspect.Parameter.POSITIONAL_ONLY]
                kw = {n: v for n, v in vals.items() if params[n].kind != inspect.Parameter.POSITIONAL_ONLY}
                return f(*pos, **kw)
            if form == "explicit_defaults":
                kw = {n: p.default for n, p in params.items() if p.default is not inspect.Parameter.empty and n not in vals
                      and p.kind in (p.POSITIONAL_OR_KEYWORD, p.KEYWORD_ONLY)}
                pos = [vals[n] for n in params if n in vals and params[n].kind != inspect.Parameter.KEYWORD_ONLY]
                names = [n for n in params if n in vals and params[n].kind != inspect.Parameter.KEYWORD_ONLY]
                # positional prefix must be contiguous; otherwise pass by keyword
                plist = list(params)
                if names and [plist.index(n) for n in names] != list(range(len(names))):
                    kw.update({n: vals[n] for n in names})
                    pos = []
                kw.update({n: v for n, v in vals.items() if params[n].kind == inspect.Parameter.KEYWORD_ONLY})
                return f(*pos, **kw)
            if form == "all_pos":
                order = [n for n in params if n in vals]
                if any(params[n].kind == inspect.Parameter.KEYWORD_ONLY for n in order):
                    raise LookupError
                names = list(params)
                last = max(names.index(n) for n in order)
                pos = []
                for n in names[: last + 1]:
                    if n in vals:
                        pos.append(vals[n])
                    elif params[n].default is not inspect.Parameter.empty:
                        pos.append(params[n].default)
                    else:
                        raise LookupError
                return f(*pos)
            if form == "all_pos_full":
                # every positional-capable parameter passed positionally, defaults filled in explicitly
                pos = []
                for n, p_ in params.items():
                    if p_.kind == inspect.Parameter.KEYWORD_ONLY:
                        break
                    if n in vals:
                        pos.append(vals[n])
                    elif p_.default is not inspect.Parameter.empty:
                        pos.append(p_.default)
                    else:
                        raise LookupError
                kw = {n: v for n, v in vals.items() if params[n].kind == inspect.Parameter.KEYWORD_ONLY}
                if len(pos) <= len([n for n in params if n in vals]):
                    raise LookupError  # nothing beyond the author's arguments
                return f(*pos, **kw)
            raise LookupError

        return prog

    rng = np.random.default_rng(0)
    feeds = []
    for s in specs:
        kd = np.dtype(s.dtype).kind
        if kd == "f":
            feeds.append(np.asarray((rng.standard_normal(s.shape) * 0.25)).astype(s.dtype))
        elif kd in "iu":
            feeds.append(np.asarray(rng.integers(0, 2, s.shape)).astype(s.dtype))
        elif kd == "b":
            feeds.append(np.asarray(rng.random(s.shape) > 0.5))
        else:
            return out
    results = {}
    for form in ("author", "all_kw", "explicit_defaults", "all_pos", "all_pos_full"):
        prog = make_prog(form)
        try:
            exp = jaxutil.flatten(prog(*[jnp.asarray(f) for f in feeds]))
        except LookupError:
            continue
        except Exception:
            if acc:
                acc.tally("semantic", f"{form}:original_rejects")
            continue
        status = None
        try:
            m = jaxutil.to_onnx(prog, specs)
        except TypeError as e:
            msg = str(e)
            status = "bind_failure" if any(t in msg for t in BINDING_WORDS) else "rejected"
            detail = msg[:200]
        except Exception as e:
            status, detail = "rejected", f"{type(e).__name__}: {str(e)[:150]}"
        if status is None:
            try:
                got = jaxutil.run_model(m, feeds)
                st_, d = jaxutil.compare_all(got, exp, None)
                status = "ok" if st_ in ("ok", "trivial") else "wrong_result"
                detail = d
            except Exception as e:
                status, detail = "ort_error", str(e)[:150]
        results[form] = (status, detail)
        if acc:
            acc.case(key=("semantic", qn, form), nontrivial=(form != "author"))
            acc.tally("semantic", f"{form}:{status}")
    author = results.get("author", ("ok", ""))[0]
    # ---- non-default values of optional parameters (type-directed), singly and paired with keepdims/axis
    if author == "ok":
        out += _nondefault_variants(qn, owner, tgt, attr, sig, params, static_args, tr_names, specs, feeds, acc)
    explicit = ("not supported", "unsupported", "not implemented", "only supports", "notimplementederror", "does not support", "must be")
    for form, (status, detail) in results.items():
        if form == "author":
            continue
        if status == "rejected" and author == "ok" and not any(w in detail.lower() for w in explicit):
            # the same bound arguments export fine in the author's form: a raise for a mere re-expression is a binding difference
            out.append({"sig": {"kind": "reexpression_rejected", "substitute": qn, "form": form}, "case": {"kind": "semantic", "substitute": qn, "plugin": owner},
                        "detail": f"{qn} called as {form} raises although the author's form of the same arguments exports: {detail}"})
            continue
        if status == "bind_failure":
            out.append({"sig": {"kind": "bind_failure_traced", "substitute": qn, "form": form}, "case": {"kind": "semantic", "substitute": qn, "plugin": owner},
                        "detail": f"{qn} called as {form}: {detail}"})
        elif status == "wrong_result" and author == "ok":
            out.append({"sig": {"kind": "wrong_result", "substitute": qn, "form": form}, "case": {"kind": "semantic", "substitute": qn, "plugin": owner},
                        "detail": f"{qn} called as {form}: {detail} (the author's form agrees with JAX)"})
    return out


def _nondefault_variants(qn, owner, tgt, attr, sig, params, static_args, tr_names, specs, feeds, acc):
    import itertools

    import jax.numpy as jnp
    from vf import jaxutil

    out = []
    first_shape = tuple(specs[0].shape) if specs else ()
    cands = {}
    for n, p_ in params.items():
        if n in tr_names or p_.kind in (p_.VAR_POSITIONAL, p_.VAR_KEYWORD) or p_.default is inspect.Parameter.empty:
            continue
        cur = static_args.get(n, p_.default)
        if n == "keepdims" and cur is False:
            cands[n] = True
        elif n == "axis" and cur is None and len(first_shape) >= 1:
            cands[n] = len(first_shape) - 1
        elif n == "axis" and isinstance(cur, int) and len(first_shape) >= 2 and cur in (-1, len(first_shape) - 1):
            cands[n] = 0
        elif isinstance(cur, bool):
            cands[n] = not cur
        elif n == "where" and cur is None and first_shape:
            m = np.ones(first_shape, bool)
            m.reshape(-1)[::2] = False
            cands[n] = m
        elif n == "b" and cur is None and first_shape:
            cands[n] = np.full(first_shape, 2.0, np.float32)
    names = sorted(cands)
    combos = [(n,) for n in names] + [c for c in itertools.combinations(names, 2) if "keepdims" in c or "axis" in c][:6]
    plan_ = [(c, False) for c in combos[:10]] + [(c, True) for c in combos[:10] if all(params[n].kind != inspect.Parameter.KEYWORD_ONLY for n in c)][:6]
    for combo, _positional in plan_:
        def prog(*xs, _combo=combo, _positional=_positional):
            vals = dict(static_args)
            vals.update(dict(zip(tr_names, xs)))
            for n in _combo:
                v = cands[n]
                vals[n] = jnp.asarray(v) if isinstance(v, np.ndarray) else v
            if _positional:
                pos, kw = [], {}
                plist = list(params)
                last = max(plist.index(n) for n in vals if params[n].kind != inspect.Parameter.KEYWORD_ONLY)
                for n in plist[: last + 1]:
                    p_ = params[n]
                    if p_.kind == inspect.Parameter.KEYWORD_ONLY:
                        break
                    pos.append(vals[n] if n in vals else p_.default)
                kw = {n: v for n, v in vals.items() if params[n].kind == inspect.Parameter.KEYWORD_ONLY}
                return getattr(tgt, attr)(*pos, **kw)
            pos = [vals[n] for n in params if n in vals and params[n].kind == inspect.Parameter.POSITIONAL_ONLY]
            kw = {n: v for n, v in vals.items() if params[n].kind != inspect.Parameter.POSITIONAL_ONLY}
            return getattr(tgt, attr)(*pos, **kw)

        label = "+".join(combo) + (":pos" if _positional else "")
        try:
            exp = jaxutil.flatten(prog(*[jnp.asarray(f) for f in feeds]))
        except Exception:
            if acc:
                acc.tally("nondefault", "original_rejects")
            continue
        try:
            m = jaxutil.to_onnx(prog, specs)
        except TypeError as e:
            msg = str(e)
            if any(t in msg for t in BINDING_WORDS):
                out.append({"sig": {"kind": "bind_failure_traced", "substitute": qn, "form": "nondefault:" + label}, "case": {"kind": "semantic", "substitute": qn, "plugin": owner},
                            "detail": f"{qn}({label}=non-default): {msg[:160]}"})
            elif acc:
                acc.tally("nondefault", "rejected")
            continue
        except Exception:
            if acc:
                acc.tally("nondefault", "rejected")
            continue
        try:
            got = jaxutil.run_model(m, feeds)
            st_, d = jaxutil.compare_all(got, exp, None)
        except Exception as e:
            if acc:
                acc.tally("nondefault", "ort_error")
            continue
        if acc:
            acc.case(key=("nondefault", qn, label), nontrivial=True)
            acc.tally("nondefault", st_)
        if st_ not in ("ok", "trivial"):
            out.append({"sig": {"kind": "argument_ignored_or_wrong", "substitute": qn, "parameter": label}, "case": {"kind": "semantic", "substitute": qn, "plugin": owner},
                        "detail": f"{qn} with non-default {label}: exported model differs from the original function: {d}"})
    return out


# ------------------------------------------------------------------ plan / work


def plan(tier, seed):
    shards = [{"kind": "binder", "part": i, "parts": 4} for i in range(4)]
    n = 12
    shards += [{"kind": "semantic", "part": i, "parts": n, "limit_tc": 1 if tier == "quick" else 3} for i in range(n)]
    return shards


def work(sh):
    acc = Acc()
    if sh["kind"] == "binder":
        subs = substitutes()
        acc.stats["substitutes_total"] = len(subs) if sh["part"] == 0 else 0
        for i, (qn, orig, sub, pn) in enumerate(subs):
            if i % sh["parts"] != sh["part"]:
                continue
            for v in check_binder(qn, orig, sub, pn, acc):
                acc.violation(v["sig"], v["case"], v["detail"])
        if subs and sh["part"] == 0:
            acc.samples.append({"level": "binder", "substitute": subs[0][0], "forms": [f"{p}:{f}" for p, f, _ in forms(inspect.signature(subs[0][1]))][:8]})
    else:
        from vf import catalog

        plugins = sorted({c["id"].split("#")[0] for c in catalog.cases() if not c["id"].startswith("ex:")})
        mine = set(plugins[sh["part"]::sh["parts"]])
        rec = record_calls(mine, limit_tc=sh["limit_tc"])
        acc.count("substitutes_with_recorded_calls", len(rec))
        for qn in sorted(rec):
            try:
                vs = check_semantic(qn, rec[qn], acc)
            except Exception as e:
                acc.tally("semantic", f"harness_skip:{type(e).__name__}")
                continue
            for v in vs:
                acc.violation(v["sig"], v["case"], v["detail"])
        if rec and len(acc.samples) < 1:
            acc.samples.append({"level": "semantic", "recorded_substitutes": sorted(rec)[:6], "forms": ["all_kw", "explicit_defaults", "all_pos"]})
    return acc.to_dict()


def replay(case):
    if case["kind"] == "binder":
        for qn, orig, sub, pn in substitutes():
            if qn == case["substitute"] and pn == case["plugin"]:
                return [v for v in check_binder(qn, orig, sub, pn) if v["sig"]["parameter"] == case["parameter"] and v["sig"]["form"] == case["form"]]
        return []
    from vf import catalog

    key = case.get("plugin") or "all"
    if key not in _REC:
        _REC[key] = record_calls({case["plugin"]} if case.get("plugin") else None, limit_tc=2)
    rec = _REC[key]
    qn = case["substitute"]
    return check_semantic(qn, rec[qn]) if qn in rec else []
