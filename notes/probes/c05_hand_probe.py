import sys; sys.path.insert(0,'/tmp')
import jax, jax.numpy as jnp, numpy as np, onnx
from jax2onnx import to_onnx
import jitfix
import onnxruntime as ort
ort.set_default_logger_severity(4)
S=jax.ShapeDtypeStruct
def io(m):
    f=lambda v:(v.name, onnx.TensorProto.DataType.Name(v.type.tensor_type.elem_type), [d.dim_param or d.dim_value for d in v.type.tensor_type.shape.dim])
    return [f(v) for v in m.graph.input],[f(v) for v in m.graph.output]
def t(name, fn, specs, **kw):
    try:
        m=to_onnx(fn,specs,**kw); print(name, io(m))
        try:
            onnx.checker.check_model(m,full_check=True); ort.InferenceSession(m.SerializeToString())
        except Exception as e: print("   INVALID:",str(e)[:200])
        return m
    except Exception as e: print(name,"RAISES",type(e).__name__,str(e)[:200])
# unused input, identity, duplicated outputs, constant output, nested pytree
t("unused", lambda x,y: x+1, [("B",3),(4,)])
t("identity", lambda x: x, [("B",3)])
t("dup_out", lambda x: (x+1, x+1, x), [(2,3)])
def same(x):
    y=x*2; return y,y
t("same_value_twice", same, [(2,3)])
t("const_out", lambda x: (jnp.ones((2,)), x*2), [(2,3)])
t("nested", lambda x: {"a":(x+1,[x*2]), "b":x.sum()}, [(2,3)])
t("int_types", lambda a,b,c: (a+1,b+1,c), [S((2,),np.int8),S((2,),np.uint16),S((2,),np.int64)])
t("bool_out", lambda x: (x>0, jnp.argmax(x)), [(2,3)])
t("complex_out", lambda x: jax.lax.complex(x,x), [(2,3)])
t("f16", lambda x: x*2, [S((2,),np.float16)])
t("names", lambda x,y: (x+y, x-y), [(2,3),(2,3)], input_names=["a","b"], output_names=["s","d"])
t("names_collide", lambda x,y: (x+y, x-y), [(2,3),(2,3)], input_names=["a","b"], output_names=["a","d"])
t("names_in_is_out", lambda x,y: (x, x-y), [(2,3),(2,3)], input_names=["a","b"], output_names=["o","d"])
t("names_unused", lambda x,y: (x*2,), [(2,3),(2,3)], input_names=["a","b"], output_names=["o"])
t("names_swap", lambda x,y: (x+y,x*y), [(2,3),(2,3)], input_names=["a","b"], output_names=["out_1","out_0"])
t("names_internal_collision", lambda x,y: (jnp.sin(x+y),), [(2,3),(2,3)], input_names=["in_1","in_0"], output_names=["o"])
t("f64_spec_single", lambda x: x*2, [S((2,),np.float64)])
t("dbl", lambda x: (x*2, x.astype(jnp.float32)), [S((2,),np.float32)], enable_double_precision=True)
t("sym_out", lambda x,y: (x[:,None]*y[None,:]).reshape(-1), [("B",),("N",)])
