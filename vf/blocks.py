"""Module-level building blocks in plain / @onnx_function / @onnx_function(unique=True) twins.

They MUST live at module level: decorating a local function or class makes every later to_onnx
in the process fail (a precondition every real caller respects).  Used by C03, C07, C13, C14.
"""

from __future__ import annotations

import equinox as eqx
import jax
import jax.numpy as jnp
import numpy as np
from flax import nnx

from jax2onnx import onnx_function


class _NnxBlk(nnx.Module):
    def __init__(self, seed, scale, act, din=4):
        self.l = nnx.Linear(din, 4, rngs=nnx.Rngs(seed))
        self.scale = scale
        self.act = act

    def __call__(self, x, *, gain=1.0):
        h = self.l(x) * self.scale * gain
        return jnp.tanh(h) if self.act == "tanh" else jax.nn.relu(h)


class NnxPlain(_NnxBlk):
    pass


@onnx_function
class NnxFn(_NnxBlk):
    pass


@onnx_function(unique=True)
class NnxUniq(_NnxBlk):
    pass


class _EqxBlk(eqx.Module):
    w: jax.Array
    k: int = eqx.field(static=True)

    def __call__(self, x):
        return (x @ self.w) ** self.k


class EqxPlain(_EqxBlk):
    pass


@onnx_function
class EqxFn(_EqxBlk):
    pass


@onnx_function(unique=True)
class EqxUniq(_EqxBlk):
    pass


class _PlainCls:
    """A plain Python class holding numpy state and a string mode."""

    def __init__(self, seed, mode):
        self.b = np.random.RandomState(seed).randn(4).astype(np.float32) * 0.5
        self.mode = mode

    def __call__(self, x):
        return x + self.b if self.mode == "add" else x * (1.0 + self.b)


class ClsPlain(_PlainCls):
    pass


@onnx_function
class ClsFn(_PlainCls):
    pass


@onnx_function(unique=True)
class ClsUniq(_PlainCls):
    pass


def f_plain(x, *, k=1.0):
    return jnp.sin(x) * k + x


@onnx_function
def f_fn(x, *, k=1.0):
    return jnp.sin(x) * k + x


@onnx_function(unique=True)
def f_uniq(x, *, k=1.0):
    return jnp.sin(x) * k + x


def g_plain(x, y):
    return jnp.maximum(x, y) - 0.25 * y


@onnx_function
def g_fn(x, y):
    return jnp.maximum(x, y) - 0.25 * y


@onnx_function(unique=True)
def g_uniq(x, y):
    return jnp.maximum(x, y) - 0.25 * y


def outer_plain(x):
    return f_plain(x, k=2.0) + f_plain(x * 0.5, k=2.0)


@onnx_function
def outer_fn(x):
    return f_fn(x, k=2.0) + f_fn(x * 0.5, k=2.0)


@onnx_function(unique=True)
def outer_uniq(x):
    return f_uniq(x, k=2.0) + f_uniq(x * 0.5, k=2.0)


def h_plain(x):
    return jnp.tanh(x) * 0.5 - x


@onnx_function
def h_fn(x):
    return jnp.tanh(x) * 0.5 - x


@onnx_function(unique=True)
def h_uniq(x):
    return jnp.tanh(x) * 0.5 - x


def outer2_plain(x):
    return f_plain(x, k=2.0) + g_plain(x, x * 0.5) * h_plain(x)


@onnx_function
def outer2_fn(x):
    # three *different* nested functions are defined while this body is built
    return f_fn(x, k=2.0) + g_fn(x, x * 0.5) * h_fn(x)


@onnx_function(unique=True)
def outer2_uniq(x):
    return f_uniq(x, k=2.0) + g_uniq(x, x * 0.5) * h_uniq(x)


# --- positional arguments that are constants of the caller's graph, and call-time (runtime) parameters: C07 only
CONSTS = [np.full((4,), 0.5, np.float32), (np.arange(4) * 0.3 - 0.2).astype(np.float32), np.float32(2.0), np.float32(4.0)]


def p_plain(x, w):
    return (x + jnp.tanh(x)) / w


@onnx_function
def p_fn(x, w):
    return (x + jnp.tanh(x)) / w


@onnx_function(unique=True)
def p_uniq(x, w):
    return (x + jnp.tanh(x)) / w


def gate_plain(x, double=True, shift=True):
    y = jnp.where(double, x * 2.0, x)
    return jnp.where(shift, y + 10.0, y)


@onnx_function
def gate_fn(x, double=True, shift=True):
    y = jnp.where(double, x * 2.0, x)
    return jnp.where(shift, y + 10.0, y)


@onnx_function(unique=True)
def gate_uniq(x, double=True, shift=True):
    y = jnp.where(double, x * 2.0, x)
    return jnp.where(shift, y + 10.0, y)


def idf_plain(x):
    return x


@onnx_function
def idf_fn(x):
    return x


@onnx_function(unique=True)
def idf_uniq(x):
    return x


def pick2_plain(x, y):
    return y


@onnx_function
def pick2_fn(x, y):
    return y


@onnx_function(unique=True)
def pick2_uniq(x, y):
    return y


def mag_plain(x):
    return jnp.concatenate([x, jnp.abs(x)], axis=-1)


@onnx_function
def mag_fn(x):
    return jnp.concatenate([x, jnp.abs(x)], axis=-1)


@onnx_function(unique=True)
def mag_uniq(x):
    return jnp.concatenate([x, jnp.abs(x)], axis=-1)


MAG_DTYPES = {"f32": jnp.float32, "i32": jnp.int32, "i16": jnp.int16, "i8": jnp.int8, "f16": jnp.float16}


def site_strategy():
    from hypothesis import strategies as st

    return st.one_of(
        st.tuples(st.just("nnx"), st.integers(0, 1), st.sampled_from([1.0, 2.0]), st.sampled_from(["tanh", "relu"]), st.sampled_from([1.0, 3.0, -1.0, -2.0])).map(list),
        st.tuples(st.just("eqx"), st.integers(0, 1), st.integers(1, 2)).map(list),
        st.tuples(st.just("cls"), st.integers(0, 1), st.sampled_from(["add", "mul"])).map(list),
        st.tuples(st.just("fn"), st.sampled_from([1.0, 2.0, -1.0, -2.0])).map(list),
        st.tuples(st.just("g"), st.sampled_from([0.5, 2.0])).map(list),
        st.tuples(st.just("outer")).map(list),
        st.tuples(st.just("outer2")).map(list),
    )


def instances(history, variant):
    insts = []
    for s in history:
        if s[0] == "nnx":
            cls = {"plain": NnxPlain, "fn": NnxFn, "uniq": NnxUniq}[variant]
            insts.append(cls(s[1], s[2], s[3]))
        elif s[0] == "eqx":
            cls = {"plain": EqxPlain, "fn": EqxFn, "uniq": EqxUniq}[variant]
            w = jnp.asarray(np.random.RandomState(s[1]).randn(4, 4).astype(np.float32) * 0.3)
            insts.append(cls(w, s[2]))
        elif s[0] == "cls":
            cls = {"plain": ClsPlain, "fn": ClsFn, "uniq": ClsUniq}[variant]
            insts.append(cls(s[1], s[2]))
        else:
            insts.append(None)
    return insts


def build(history, variant, insts=None):
    """variant in plain / fn / uniq.  Returns fn(x) chaining the call sites of `history`."""
    insts = insts if insts is not None else instances(history, variant)

    def fn(x):
        acc = x
        for s, inst in zip(history, insts):
            if s[0] == "nnx":
                acc = acc + inst(acc, gain=s[4])
            elif s[0] == "eqx":
                acc = acc * 0.5 + inst(acc)
            elif s[0] == "cls":
                acc = inst(acc)
            elif s[0] == "fn":
                acc = {"plain": f_plain, "fn": f_fn, "uniq": f_uniq}[variant](acc, k=s[1])
            elif s[0] == "g":
                acc = {"plain": g_plain, "fn": g_fn, "uniq": g_uniq}[variant](acc, acc * s[1])
            elif s[0] == "outer2":
                acc = {"plain": outer2_plain, "fn": outer2_fn, "uniq": outer2_uniq}[variant](acc)
            else:
                acc = {"plain": outer_plain, "fn": outer_fn, "uniq": outer_uniq}[variant](acc)
        return acc

    return fn
