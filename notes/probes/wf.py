import sys, os, time, json, collections, warnings
warnings.filterwarnings("ignore")
sys.path.insert(0,'/tmp'); sys.path.insert(0,'/repo')
import numpy as np, jax, jax.numpy as jnp, onnx
import logging; logging.disable(logging.CRITICAL)
from jax2onnx import to_onnx
import jitfix
from jax2onnx.plugins.plugin_system import PLUGIN_REGISTRY, EXAMPLE_REGISTRY, import_all_plugins
import onnxruntime as ort
ort.set_default_logger_severity(4)
import_all_plugins()
cases=[]
for name, plugin in PLUGIN_REGISTRY.items():
    md = getattr(plugin,'metadata',None)
    if not md: continue
    for tc in md.get('testcases',[]): cases.append((md.get('context'), md.get('component'), tc))
for md in EXAMPLE_REGISTRY.values():
    for tc in md.get('testcases',[]): cases.append((md.get('context'), md.get('component'), tc))
shard=int(sys.argv[1]); nsh=int(sys.argv[2])
def scope_walk(model):
    """independent SSA/scope walk; returns list of problems"""
    probs=[]
    def walk(g, outer, path):
        defined=set(outer)
        local=set()
        def define(n, what):
            if not n: return
            if n in local: probs.append(f"{path}: duplicate def {n} ({what})")
            local.add(n); defined.add(n)
        for i in g.input: define(i.name,"input")
        for t in g.initializer:
            if t.name in local and t.name in {i.name for i in g.input}: continue
            define(t.name,"init")
        for n in g.node:
            for i in n.input:
                if i and i not in defined: probs.append(f"{path}: use before def {i} in {n.op_type}")
            for a in n.attribute:
                if a.type==onnx.AttributeProto.GRAPH: walk(a.g, defined, path+"/"+n.op_type)
                elif a.type==onnx.AttributeProto.GRAPHS:
                    for sg in a.graphs: walk(sg, defined, path+"/"+n.op_type)
            for o in n.output: define(o,"node output")
        for o in g.output:
            if o.name not in defined: probs.append(f"{path}: output {o.name} undefined")
    walk(model.graph,set(),"main")
    fkeys={(f.domain,f.name):f for f in model.functions}
    imports={o.domain for o in model.opset_import}
    def chk_calls(nodes, path, imps):
        for n in nodes:
            if n.domain not in ("","ai.onnx"):
                f=fkeys.get((n.domain,n.op_type))
                if f is None: probs.append(f"{path}: call to undefined function {n.domain}:{n.op_type}")
                else:
                    if len(n.input)!=len(f.input) or len(n.output)!=len(f.output): probs.append(f"{path}: arity mismatch {n.op_type}")
                if n.domain not in imps: probs.append(f"{path}: domain {n.domain} not imported")
            for a in n.attribute:
                if a.type==onnx.AttributeProto.GRAPH: chk_calls(a.g.node, path, imps)
                elif a.type==onnx.AttributeProto.GRAPHS:
                    for sg in a.graphs: chk_calls(sg.node,path,imps)
    chk_calls(model.graph.node,"main",imports)
    for f in model.functions:
        chk_calls(f.node,"fn:"+f.name,{o.domain for o in f.opset_import})
        # function body SSA
        local=set(f.input)
        for n in f.node:
            for i in n.input:
                if i and i not in local: probs.append(f"fn:{f.name}: use before def {i}")
            for o in n.output:
                if o in local: probs.append(f"fn:{f.name}: dup def {o}")
                local.add(o)
    return probs
res=[]
for idx,(ctx,comp,tc) in enumerate(cases):
    if idx % nsh != shard: continue
    rec={"ctx":ctx,"comp":comp,"tc":tc.get("testcase")}
    for dbl in (False,True):
        if dbl and (tc.get("run_only_f32_variant") or tc.get("disable_float64_test")): continue
        if (not dbl) and (tc.get("run_only_f64_variant") or tc.get("enable_double_precision")): continue
        key="f64" if dbl else "f32"
        try:
            fn = tc.get("callable")
            jax.config.update("jax_enable_x64", dbl)
            try:
                if getattr(fn,"__jax2onnx_factory__",False): fn = fn.with_dtype(jnp.float64 if dbl else jnp.float32).instantiate()
            finally: jax.config.update("jax_enable_x64", False)
            shapes=tc.get("input_shapes"); dts=tc.get("input_dtypes"); vals=tc.get("input_values")
            fix=lambda d: (np.float64 if (dbl and np.issubdtype(np.dtype(d),np.floating)) else d)
            if shapes is not None:
                specs=[jax.ShapeDtypeStruct(tuple(s),fix(d)) for s,d in zip(shapes,dts)] if dts else [tuple(s) for s in shapes]
            elif vals is not None:
                base=[np.asarray(v) for v in vals]
                if not dbl: base=[f.astype(np.float32) if f.dtype==np.float64 else (f.astype(np.int32) if f.dtype==np.int64 else f) for f in base]
                else: base=[f.astype(np.float64) if f.dtype.kind=='f' else f for f in base]
                specs=[jax.ShapeDtypeStruct(f.shape,f.dtype) for f in base]
            else: specs=[]
            kw={}
            for k in ("inputs_as_nchw","outputs_as_nchw","normalization_mode","input_params"):
                if tc.get(k) is not None: kw[k]=tc[k]
            if tc.get("opset_version"): kw["opset"]=tc["opset_version"]
            m=to_onnx(fn, specs, enable_double_precision=dbl, **kw)
        except Exception as e:
            rec[key]={"export":f"{type(e).__name__}: {str(e)[:120]}"}; continue
        r={}
        if m.ByteSize()>150_000_000: rec[key]={"big":True}; continue
        try: onnx.checker.check_model(m, full_check=True)
        except Exception as e: r["checker"]=str(e)[:200]
        try: onnx.shape_inference.infer_shapes(m, strict_mode=True)
        except Exception as e: r["strict"]=str(e)[:200]
        p=scope_walk(m)
        if p: r["scope"]=p[:3]
        try: ort.InferenceSession(m.SerializeToString(), providers=["CPUExecutionProvider"])
        except Exception as e: r["ort"]=str(e)[:200]
        # double tensors in f32 export
        if not dbl:
            dd=[]
            def scan(g):
                for t in g.initializer:
                    if t.data_type==onnx.TensorProto.DOUBLE: dd.append("init:"+t.name)
                for vi in list(g.input)+list(g.output)+list(g.value_info):
                    if vi.type.tensor_type.elem_type==onnx.TensorProto.DOUBLE: dd.append("vi:"+vi.name)
                for n in g.node:
                    for a in n.attribute:
                        if a.type==onnx.AttributeProto.TENSOR and a.t.data_type==onnx.TensorProto.DOUBLE: dd.append("attr:"+n.op_type)
                        if n.op_type=="Cast" and a.name=="to" and a.i==onnx.TensorProto.DOUBLE: dd.append("cast")
                        if a.type==onnx.AttributeProto.GRAPH: scan(a.g)
            scan(m.graph)
            for f in m.functions:
                for n in f.node:
                    for a in n.attribute:
                        if a.type==onnx.AttributeProto.TENSOR and a.t.data_type==onnx.TensorProto.DOUBLE: dd.append("fattr:"+n.op_type)
                        if n.op_type=="Cast" and a.name=="to" and a.i==onnx.TensorProto.DOUBLE: dd.append("fcast")
            if dd: r["double_in_f32"]=dd[:4]
        rec[key]=r
    res.append(rec)
json.dump(res, open(f"/tmp/scratch/wf_{shard}.json","w"))
print("done",shard)
