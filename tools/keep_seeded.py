#!/usr/bin/env python3
"""Copy a confirmed seeded change from a sub-agent worktree into /verif/seeded/<PROP>-<slug>/.
usage: tools/keep_seeded.py <worktree> <PROP> <slug> <detected: yes|no|thorough> "<which check / how>" """
import json, os, shutil, sys
ROOT = os.path.dirname(os.path.dirname(os.path.abspath(__file__)))
wt, prop, slug, detected, how = sys.argv[1:6]
src = os.path.join(wt, "seeded", slug)
conf = json.load(open(os.path.join(src, "confirm.json")))
assert conf["applies"] and conf["demo_exit_clean"] == 0 and conf["demo_exit_patched"] != 0 and conf["suite_exit_patched"] == 0, conf
dst = os.path.join(ROOT, "seeded", f"{prop}-{slug}")
os.makedirs(dst, exist_ok=True)
for f in ("patch.diff", "demo.py", "notes.md"):
    if os.path.exists(os.path.join(src, f)):
        shutil.copy(os.path.join(src, f), os.path.join(dst, f))
notes = open(os.path.join(src, "notes.md")).read() if os.path.exists(os.path.join(src, "notes.md")) else ""
meta = {
    "property": prop,
    "slug": slug,
    "breaks": f"{prop}",
    "needs_to_manifest": notes[:1500],
    "confirmed_by_me": {
        "demo_passes_on_clean_tree": conf["demo_exit_clean"] == 0,
        "demo_fails_with_patch": conf["demo_exit_patched"] != 0,
        "existing_suite_with_patch": conf["suite_summary"],
        "commands": ["tools/confirm_seeded.sh <worktree> " + prop + "  (demo.py on clean tree, demo.py with patch, full pytest with patch)",
                     "git -C <scratch worktree> apply patch.diff; VERIF_REPO=<scratch worktree> ./check " + prop + "; git checkout -- ."],
    },
    "detected_by_check": detected,
    "detection_notes": how,
}
json.dump(meta, open(os.path.join(dst, "meta.json"), "w"), indent=1)
print("kept", dst)
