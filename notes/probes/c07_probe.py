import sys; sys.path.insert(0,'/tmp')
import jax, jax.numpy as jnp, numpy as np, onnx
from jax2onnx import to_onnx, onnx_function
import jitfix
import onnxruntime as ort
ort.set_default_logger_severity(4)
from flax import nnx
import equinox as eqx
run=lambda m,feeds: (lambda s: s.run(None,{i.name:f for i,f in zip(s.get_inputs(),feeds)}))(ort.InferenceSession(m.SerializeToString()))
x=np.random.RandomState(0).randn(2,4).astype(np.float32)
def chk(name, fn, specs=[(2,4)], feeds=[x], **kw):
    try:
        m=to_onnx(fn,specs,**kw)
        got=run(m,feeds); exp=jax.tree_util.tree_leaves(fn(*feeds))
        ok=all(np.allclose(g,np.asarray(e),rtol=1e-4,atol=1e-5) for g,e in zip(got,exp))
        calls=[(n.domain,n.op_type) for n in m.graph.node if n.domain not in ("","ai.onnx")]
        print(name,"OK" if ok else "MISMATCH","functions:",len(m.functions),"calls:",len(calls))
    except Exception as e: print(name,"RAISES",type(e).__name__,str(e)[:200])
# unique=True nnx module differing in static config only (same weights)
@onnx_function(unique=True)
class Blk(nnx.Module):
    def __init__(self, scale, act, rngs):
        self.l=nnx.Linear(4,4,rngs=rngs); self.scale=scale; self.act=act
    def __call__(self,x):
        h=self.l(x)*self.scale
        return jnp.tanh(h) if self.act=="tanh" else jax.nn.relu(h)
a=Blk(1.0,"tanh",nnx.Rngs(0)); b=Blk(2.0,"tanh",nnx.Rngs(0)); c=Blk(1.0,"relu",nnx.Rngs(0)); d=Blk(1.0,"tanh",nnx.Rngs(1)); a2=Blk(1.0,"tanh",nnx.Rngs(0))
chk("nnx_static_float", lambda x: a(x)+b(x))
chk("nnx_static_str", lambda x: a(x)+c(x))
chk("nnx_weights", lambda x: a(x)+d(x))
chk("nnx_same", lambda x: a(x)+a2(x))
# eqx module with static field
@onnx_function(unique=True)
class EB(eqx.Module):
    w: jax.Array
    k: int = eqx.field(static=True)
    def __call__(self,x): return (x@self.w)**self.k
w=jnp.asarray(np.random.RandomState(1).randn(4,4).astype(np.float32))
e1=EB(w,1); e2=EB(w,2); e3=EB(w*2,1)
chk("eqx_static", lambda x: e1(x)+e2(x))
chk("eqx_weights", lambda x: e1(x)+e3(x))
# plain python class (non-pytree) unique
@onnx_function(unique=True)
class PC:
    def __init__(self,k): self.k=k
    def __call__(self,x): return x*self.k
p1=PC(2.0); p2=PC(3.0)
chk("plain_class", lambda x: p1(x)+p2(x))
# functions with kwargs
@onnx_function(unique=True)
def fk(x, *, k=1.0, mode="a"): return x*k if mode=="a" else x-k
chk("fn_kwargs", lambda x: fk(x,k=2.0)+fk(x,k=3.0)+fk(x,k=2.0,mode="b"))
@onnx_function
def fpos(x, k): return x*k
chk("fn_pos_scalar", lambda x: fpos(x,2.0)+fpos(x,3.0))
# closure-dependent function unique
def mkc(c):
    @onnx_function(unique=True)
    def closure_fn(x): return x+c
    return closure_fn
try:
    c1=mkc(1.0); c2=mkc(5.0)
    chk("closure", lambda x: c1(x)+c2(x))
except Exception as e: print("closure reg RAISES",type(e).__name__,str(e)[:120])
# shapes/dtypes differ
@onnx_function(unique=True)
def g(x): return jnp.sum(x,axis=-1)
chk("shapes", lambda x: g(x)+g(x.T).sum())
chk("dtypes", lambda x: g(x)+g(x.astype(jnp.int32)).astype(jnp.float32))
# nested + dynamic kwarg tracer
@onnx_function
def inner(x, *, s): return x*s
@onnx_function
def outer(x): return inner(x,s=x.sum())+inner(x,s=2.0)
chk("nested_dyn_kwarg", outer)
# symbolic dims
chk("sym", lambda x: g(x)+a(x).sum(), specs=[("B",4)], feeds=[np.random.RandomState(3).randn(5,4).astype(np.float32)])
