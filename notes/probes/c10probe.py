import sys, os, time, json, collections, warnings
warnings.filterwarnings("ignore")
sys.path.insert(0,'/tmp/scratch_repo')   # tree with candidate fixes (jit etc.)
import numpy as np, jax, jax.numpy as jnp
import logging; logging.disable(logging.CRITICAL)
from jax2onnx import to_onnx
from jax2onnx.plugins.plugin_system import PLUGIN_REGISTRY, EXAMPLE_REGISTRY, import_all_plugins
import onnxruntime as ort
ort.set_default_logger_severity(4)
import_all_plugins()
cases=[]
for name, plugin in sorted(PLUGIN_REGISTRY.items()):
    md = getattr(plugin,'metadata',None)
    if not md: continue
    for i,tc in enumerate(md.get('testcases',[])): cases.append((f"{name}#{tc['testcase']}#{i}", md.get('context'), md.get('component'), tc))
for k,md in sorted(EXAMPLE_REGISTRY.items()):
    for i,tc in enumerate(md.get('testcases',[])): cases.append((f"ex:{k}#{tc['testcase']}#{i}", md.get('context'), md.get('component'), tc))
cases.sort(key=lambda c:c[0])
shard=int(sys.argv[1]); nsh=int(sys.argv[2])
POOL=np.array([0.0,-0.0,0.5,-0.5,1.5,-1.5,2.5,-2.5,3.5,-3.5,1.0,-1.0,2.0,-2.0,3.0,-7.25,1e-3,-1e-3,0.49999997,-0.49999997,40.0,-40.0,88.0,-88.0,1e4,-1e4,1e-20,6.0,-6.0])
def draw(rng, shape, dt, mode):
    shape=tuple(3 if isinstance(d,str) else d for d in shape); dt=np.dtype(dt)
    if dt.kind=='f':
        if mode==0: a=rng.standard_normal(shape)*2
        elif mode==1: a=rng.choice(POOL[:20], size=shape)
        else: a=rng.choice(POOL, size=shape)
        return np.asarray(a).astype(dt)
    if dt.kind in 'iu':
        lo,hi = (0,9) if dt.kind=='u' else ((-4,9) if mode else (0,5))
        return np.asarray(rng.integers(lo,hi,shape)).astype(dt)
    if dt==np.bool_: return np.asarray(rng.random(shape)>0.5)
    if dt.kind=='c': return np.asarray(rng.standard_normal(shape)+1j*rng.standard_normal(shape)).astype(dt)
    return np.asarray(rng.standard_normal(shape)).astype(dt)
SC=[0.5,2.0,0.01,100.0]
def ort_feed(a, meta):
    a=np.asarray(a)
    if a.dtype.kind=='c':  # complex packed as trailing pair
        return np.stack([a.real,a.imag],axis=-1).astype(np.float64 if 'double' in meta.type else np.float32)
    return a
def leaves(x): return [np.asarray(l) for l in jax.tree_util.tree_leaves(x)]
def compare(got, r32, r64):
    """returns None or dict describing violation"""
    if len(got)!=len(r32): return {"kind":"count","got":len(got),"exp":len(r32)}
    ncmp=0
    for oi,(g,e) in enumerate(zip(got,r32)):
        e64 = r64[oi] if r64 is not None and oi<len(r64) else None
        if e.dtype.kind=='c' and g.dtype.kind!='c' and g.shape==e.shape+(2,): g=g[...,0]+1j*g[...,1]
        if g.shape!=e.shape: return {"kind":"shape","o":oi,"got":list(g.shape),"exp":list(e.shape)}
        if e.dtype.kind in 'fc':
            ref = e64.astype(np.complex128 if e.dtype.kind=='c' else np.float64) if (e64 is not None and e64.shape==e.shape) else e.astype(np.complex128 if e.dtype.kind=='c' else np.float64)
            e_ = e.astype(ref.dtype); g_=g.astype(ref.dtype)
            fin=np.isfinite(ref)&np.isfinite(e_)
            if not fin.any(): continue
            scale=max(1.0,float(np.abs(ref[fin]).max()))
            own=np.abs(e_-ref); own=np.where(np.isfinite(own),own,np.inf)
            rt,at=(2e-4,2e-5) if e64 is not None else (1e-3,1e-4)
            tol=at*scale+rt*np.abs(ref)+16*own
            with np.errstate(all='ignore'): err=np.abs(g_-ref)
            bad=fin&~(err<=tol)
            ncmp+=int(fin.sum())
            if bad.any():
                j=tuple(np.argwhere(bad)[0])
                return {"kind":"value","o":oi,"idx":list(map(int,j)),"got":str(g_[j]),"ref64":str(ref[j]),"ref32":str(e_[j]),"nbad":int(bad.sum()),"n":int(fin.sum())}
        else:
            ncmp+=e.size
            if g.dtype.kind in 'fc': return {"kind":"dtypeclass","o":oi,"got":str(g.dtype),"exp":str(e.dtype)}
            if not np.array_equal(g.astype(np.int64) if g.dtype.kind in 'iub' else g, e.astype(np.int64) if e.dtype.kind in 'iub' else e):
                bad=np.argwhere(np.asarray(g).astype(np.int64)!=np.asarray(e).astype(np.int64)); j=tuple(bad[0]) if len(bad) else ()
                return {"kind":"intvalue","o":oi,"got":str(np.asarray(g)[j]),"exp":str(np.asarray(e)[j]),"nbad":int(len(bad)),"n":int(e.size)}
    return {"kind":"ok","ncmp":ncmp}

res=[]
def scal(fn):
    def g(*xs):
        out=jax.tree_util.tree_leaves(fn(*xs))
        return sum(jnp.sum(o.astype(jnp.float32)) for o in out if jnp.issubdtype(o.dtype,jnp.floating))
    return g
TS={"jit":lambda f:jax.jit(f), "jit2":lambda f:jax.jit(lambda *a: jax.jit(f)(*a)), "vmap":lambda f:jax.vmap(f), "grad":lambda f:jax.grad(scal(f)), "remat":lambda f:jax.checkpoint(f)}
for idx,(cid,ctx,comp,tc) in enumerate(cases):
    if idx % nsh != shard: continue
    if tc.get("skip_numeric_validation") or tc.get("run_only_f64_variant") or tc.get("enable_double_precision") or tc.get("input_params") or tc.get("inputs_as_nchw") or tc.get("outputs_as_nchw"): continue
    shapes=tc.get("input_shapes"); dts=tc.get("input_dtypes")
    if not shapes or any(isinstance(d,str) for s_ in shapes for d in s_): continue
    dts2 = list(dts) if dts else [np.float32]*len(shapes)
    if any(np.dtype(d).kind=='c' for d in dts2): continue
    fn = tc.get("callable")
    try:
        if getattr(fn,"__jax2onnx_factory__",False): fn = fn.with_dtype(jnp.float32).instantiate()
    except Exception: continue
    if ctx.startswith("examples") : continue
    rng=np.random.default_rng(5)
    for tname,T in TS.items():
        rec={"id":cid,"T":tname}
        if tname=="grad" and np.dtype(dts2[0]).kind!='f': continue
        try:
            if tname=="vmap":
                sh=[(2,)+tuple(s_) for s_ in shapes]
            else: sh=[tuple(s_) for s_ in shapes]
            specs=[jax.ShapeDtypeStruct(s_,d_) for s_,d_ in zip(sh,dts2)]
            tf=T(fn)
            feeds=[draw(rng,s_,d_,0) for s_,d_ in zip(sh,dts2)]
            try: exp=leaves(tf(*[jnp.asarray(f) for f in feeds]))
            except Exception as e: rec["status"]="jax_rejects"; rec["err"]=f"{type(e).__name__}"; res.append(rec); continue
            try: m=to_onnx(tf,specs)
            except Exception as e: rec["status"]="export_raises"; rec["err"]=f"{type(e).__name__}: {str(e)[:100]}"; res.append(rec); continue
            so=ort.SessionOptions(); so.graph_optimization_level=ort.GraphOptimizationLevel.ORT_DISABLE_ALL
            s=ort.InferenceSession(m.SerializeToString(), so, providers=["CPUExecutionProvider"])
            got=s.run(None,{i.name:f for i,f in zip(s.get_inputs(),feeds)})
            c=compare(got,exp,None)
            rec["status"]=c["kind"]; 
            if c["kind"]!="ok": rec["detail"]=str(c)[:200]
        except Exception as e:
            rec["status"]="harness_or_ort_error"; rec["err"]=f"{type(e).__name__}: {str(e)[:120]}"
        res.append(rec)
json.dump(res, open(f"/tmp/scratch/c10_{shard}.json","w"))
