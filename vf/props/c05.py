"""C05 — the model interface mirrors the callable's signature (structural check, no ORT)."""

from __future__ import annotations

import numpy as np

from vf.core import Acc, derive_seed, digest

PROPERTY = "C05"
LEVEL = "exploration"
RULE = (
    "Hypothesis-generated signatures: 1-3 positional inputs over 9 dtypes and 8 shape templates (0-2 symbols, rank 0-4), 1-4 result recipes "
    "(an input itself, unused inputs, the same value twice, constants, ops producing bool/int8..uint32/float16/complex/shape values), result "
    "pytree layouts (tuple, nested list/dict), x configurations: precision flag, input/output names (valid, swapped in_<i>/out_<i> internal "
    "names, colliding requests), layout flags on 4-D values, input_params. Oracle: jax.eval_shape under the same x64 setting: input count/order, "
    "output count/order, user names applied exactly and pairwise distinct, dtype class, float width vs precision flag (never DOUBLE when off; "
    "DOUBLE when on and JAX says float64), integer type kept or widened to int64 with equal signedness, rank, static dims, input symbol names. "
    "non-trivial = signature has a corner feature (unused input, passthrough, duplicate, constant, nested pytree, non-f32 dtype, symbol) or a "
    "non-default configuration; distinct by digest of (signature, configuration)."
)
ASSUMPTIONS = [
    "jax.eval_shape is the reference for the callable's result structure",
    "default names and float16/bfloat16 widths are not asserted (the statement does not promise them)",
    "a to_onnx call that raises yields no model (counted as rejected; invalid naming requests must raise or yield distinct names)",
]

DT = ["float32", "float32", "int32", "int8", "uint8", "bool", "float16", "int16", "uint32", "int64"]
SH = [(), (3,), (2, 3), ("B", 3), ("B", "N"), (2, "N"), (1, 4, 4, 3), ("B", 4, 4, 2)]
OPS = ["neg", "dbl", "sum", "gt", "cast_i32", "cast_f16", "shape0", "argmax", "cplx", "cast_i8", "cast_u8", "cast_i64", "two_sided", "two_sided_relu"]


def make_fn(sig):
    import jax
    import jax.numpy as jnp

    nin = len(sig["ins"])
    outs = sig["outs"]
    layout = sig["layout"]

    def fn(*xs, **params):
        res = []
        for o in outs:
            if o[0] == "in":
                res.append(xs[o[1] % nin])
            elif o[0] == "op":
                x = xs[o[2] % nin]
                k = o[1]
                if k == "neg":
                    res.append(jnp.logical_not(x) if x.dtype == jnp.bool_ else (-x if not jnp.issubdtype(x.dtype, jnp.unsignedinteger) else x + 1))
                elif k == "dbl":
                    res.append(x if x.dtype == jnp.bool_ else x * 2)
                elif k == "sum":
                    res.append(jnp.sum(x.astype(jnp.float32)))
                elif k == "gt":
                    res.append(x.astype(jnp.float32) > 0)
                elif k == "cast_i32":
                    res.append(x.astype(jnp.int32))
                elif k == "cast_i8":
                    res.append(x.astype(jnp.int8))
                elif k == "cast_u8":
                    res.append(x.astype(jnp.uint8))
                elif k == "cast_i64":
                    res.append(x.astype(jnp.int64))
                elif k == "cast_f16":
                    res.append(x.astype(jnp.float16))
                elif k == "shape0":
                    res.append(jnp.asarray(x.shape[0] if x.ndim else 1))
                elif k == "argmax":
                    res.append(jnp.argmax(x.astype(jnp.float32)) if x.ndim else jnp.asarray(0))
                elif k in ("two_sided", "two_sided_relu"):
                    t = jnp.sum(x.astype(jnp.float32))
                    r = (jnp.ones((2, 1), jnp.float32) * t) + (jnp.ones((1, 3), jnp.float32) * t)
                    res.append(jax.nn.relu(r) if k == "two_sided_relu" else r)
                elif k == "cplx":
                    res.append(jax.lax.complex(x.astype(jnp.float32), x.astype(jnp.float32)))
            elif o[0] == "const":
                res.append({"f": jnp.ones((2,)), "i": jnp.arange(3), "b": jnp.array([True, False])}[o[1]])
            else:
                res.append(res[-1] if res else xs[0])
        if params.get("flag"):
            res = [r if r.dtype == jnp.bool_ else r + jnp.asarray(1, r.dtype) for r in res]
        if layout == "single" and len(res) == 1:
            return res[0]
        if layout == "nested":
            return (res[0], [res[1:]], {"z": res[-1]})
        if layout == "dict":
            return {f"k{i}": r for i, r in enumerate(res)}
        return tuple(res)

    return fn


def sig_strategy():
    from hypothesis import strategies as st

    out = st.one_of(
        st.tuples(st.just("in"), st.integers(0, 2)).map(list),
        st.tuples(st.just("op"), st.sampled_from(OPS), st.integers(0, 2)).map(list),
        st.tuples(st.just("const"), st.sampled_from(["f", "i", "b"])).map(list),
        st.tuples(st.just("dup")).map(list),
    )
    return st.fixed_dictionaries({
        "ins": st.lists(st.tuples(st.sampled_from(SH), st.sampled_from(DT)).map(lambda t: [list(t[0]), t[1]]), min_size=1, max_size=3),
        "outs": st.lists(out, min_size=1, max_size=4),
        "layout": st.sampled_from(["tuple", "nested", "dict", "single"]),
        "double": st.booleans(),
        "names": st.sampled_from(["none", "none", "both", "in_only", "out_only", "internal_swapped", "collide_io", "collide_dup"]),
        "nchw_in": st.booleans(),
        "nchw_out": st.booleans(),
        "param": st.booleans(),
        # how each positional input is described to to_onnx: a ShapeDtypeStruct or a concrete example array (static shapes only)
        "forms": st.lists(st.sampled_from(["sds", "sds", "array"]), min_size=3, max_size=3),
    })


E = None
ONNX_CLS = {}
BITS = {}
UNSIGNED = set()


def _init_tables():
    global E, ONNX_CLS, BITS, UNSIGNED
    import onnx

    E = onnx.TensorProto
    ONNX_CLS = {E.BOOL: "bool", E.FLOAT: "float", E.DOUBLE: "float", E.FLOAT16: "float", E.BFLOAT16: "float"}
    for t in (E.INT8, E.INT16, E.INT32, E.INT64, E.UINT8, E.UINT16, E.UINT32, E.UINT64):
        ONNX_CLS[t] = "int"
    BITS = {E.INT8: 8, E.INT16: 16, E.INT32: 32, E.INT64: 64, E.UINT8: 8, E.UINT16: 16, E.UINT32: 32, E.UINT64: 64}
    UNSIGNED = {E.UINT8, E.UINT16, E.UINT32, E.UINT64}


CLS = {"b": "bool", "i": "int", "u": "int", "f": "float", "c": "complex"}


def _canon_name(dt, dbl):
    """Name of the dtype JAX traces an argument of dtype `dt` as (int64 -> int32 without x64)."""
    import jax
    from vf import jaxutil

    with jaxutil.x64(dbl):
        return str(np.dtype(jax.dtypes.canonicalize_dtype(dt)))


def check_sig(sig, acc=None):
    import jax
    from jax import export as jex
    from vf import jaxutil

    if E is None:
        _init_tables()
    ins = [(tuple(s), np.dtype(d)) for s, d in sig["ins"]]
    nin = len(ins)
    fn = make_fn(sig)
    dbl = sig["double"]
    kw = {}
    params = {"flag": True} if sig["param"] else {}
    case = {"kind": "sig", "sig": sig}
    # expected structure
    try:
        with jaxutil.x64(dbl):
            symnames = sorted({d for s, _ in ins for d in s if isinstance(d, str)})
            scope = jex.SymbolicScope()
            symmap = {n: jex.symbolic_shape(n, scope=scope)[0] for n in symnames}
            es = jax.eval_shape(lambda *xs: fn(*xs, **params), *[jax.ShapeDtypeStruct(tuple(symmap.get(d, d) for d in s), dt) for s, dt in ins])
            exp = jax.tree_util.tree_leaves(es)
    except Exception:
        if acc:
            acc.tally("status", "jax_rejects_signature")
            acc.case()
        return []
    nout = len(exp)
    mode = sig["names"]
    if mode in ("both", "in_only"):
        kw["input_names"] = [f"arg{i}" for i in range(nin)]
    if mode in ("both", "out_only"):
        kw["output_names"] = [f"res{i}" for i in range(nout)]
    if mode == "internal_swapped":
        kw["input_names"] = [f"in_{(i + 1) % nin}" for i in range(nin)] if nin > 1 else ["out_9"]
        kw["output_names"] = [f"out_{(i + 1) % nout}" for i in range(nout)] if nout > 1 else ["in_9"]
    if mode == "collide_io":
        kw["input_names"] = [f"v{i}" for i in range(nin)]
        kw["output_names"] = [f"v{i}" for i in range(nout)]
    if mode == "collide_dup":
        kw["output_names"] = ["same"] * nout
    in4d = [i for i, (s, _) in enumerate(ins) if len(s) == 4]
    out4d = [i for i, e in enumerate(exp) if len(e.shape) == 4 and np.dtype(e.dtype).kind != "c"]
    if sig["nchw_in"] and in4d:
        kw["inputs_as_nchw"] = in4d[:1]
    if sig["nchw_out"] and out4d:
        kw["outputs_as_nchw"] = out4d[:1]
    if params:
        kw["input_params"] = params
    forms = sig.get("forms") or ["sds"] * 3
    specs = [np.zeros(s, d) if (forms[i % len(forms)] == "array" and all(isinstance(x, int) for x in s)) else jax.ShapeDtypeStruct(s, d)
             for i, (s, d) in enumerate(ins)]
    try:
        m = jaxutil.to_onnx(fn, specs, enable_double_precision=dbl, **kw)
    except Exception as e:
        if acc:
            acc.tally("status", "rejected")
            acc.tally("rejected_reasons", f"[{mode}] {type(e).__name__}: {str(e)[:70]}")
            acc.case()
        return []
    P = []
    gi, go = list(m.graph.input), list(m.graph.output)
    param_inputs = [v for v in gi if v.name in params]
    gi_pos = [v for v in gi if v.name not in params]
    if len(gi_pos) != nin:
        P.append(("input_count", f"{len(gi_pos)} vs {nin} positional args"))
    if len(go) != nout:
        P.append(("output_count", f"{len(go)} vs {nout} result leaves"))
    if "input_names" in kw and [i.name for i in gi_pos] != kw["input_names"]:
        P.append(("input_names", f"{[i.name for i in gi_pos]} vs requested {kw['input_names']}"))
    if "output_names" in kw and [o.name for o in go] != kw["output_names"]:
        P.append(("output_names", f"{[o.name for o in go]} vs requested {kw['output_names']}"))
    if "input_names" in kw or "output_names" in kw:
        # one name may only be shared by graph slots that hold the very same value (an output that *is* input i, or one value returned twice)
        ident = [("in", i) for i in range(len(gi_pos))]
        prev = None
        res_ident = []
        for oi, o in enumerate(sig["outs"]):
            noop = {"cast_i32": "int32", "cast_f16": "float16", "cast_i8": "int8", "cast_u8": "uint8", "dbl": "bool"}
            # astype(int64) is a no-op on an argument JAX already traces as int64 (x64) / canonicalises to int32 (no x64)
            noop["cast_i64"] = "int64" if sig.get("double") else "int32"
            if o[0] == "in":
                cur = ("in", o[1] % nin)
            elif o[0] == "dup":
                cur = prev if prev is not None else ("in", 0)
            elif o[0] == "op" and noop.get(o[1]) == _canon_name(ins[o[2] % nin][1], dbl):
                cur = ("in", o[2] % nin)  # a cast to the dtype the input already has returns the input itself
            else:
                cur = ("out", oi)
            res_ident.append(cur)
            prev = cur
        if params.get("flag"):
            # the callable adds 1 to every non-bool result when the flag parameter is set: results are new values
            res_ident = [("out", i) if (r[0] == "in" and ins[r[1]][1].kind != "b") or r[0] == "out" else r for i, r in enumerate(res_ident)]
        if sig["layout"] == "nested":
            res_ident = [res_ident[0]] + res_ident[1:] + [res_ident[-1]]
        ident += res_ident[: len(go)]
        slot_names = [v.name for v in gi_pos] + [v.name for v in go][: len(ident) - len(gi_pos)]
        seen_by_name = {}
        for nm, idn in zip(slot_names, ident):
            if nm in seen_by_name and seen_by_name[nm] != idn and not params:  # (with input_params the flag rewrites every result: skip)
                P.append(("name_collision", f"name {nm!r} is carried by two different values: {slot_names}"))
                break
            seen_by_name.setdefault(nm, idn)
    if False:
        names = [v.name for v in gi_pos] + [v.name for v in go]
        # a result that *is* an input, or one value returned twice, legitimately shares a name only if the user did not name both
        if "input_names" in kw and "output_names" in kw and len(set(names)) != len(names):
            P.append(("name_collision", str(names)))
        if "output_names" in kw and len(set(o.name for o in go)) != len(go):
            P.append(("name_collision", str([o.name for o in go])))
    perm_in = {i: (0, 3, 1, 2) for i in kw.get("inputs_as_nchw", [])}
    for i, (v, (s, dt)) in enumerate(zip(gi_pos, ins)):
        tt = v.type.tensor_type
        dims = [d.dim_param or d.dim_value for d in tt.shape.dim]
        es_ = tuple(s[j] for j in perm_in[i]) if i in perm_in else s
        if len(dims) != len(es_):
            P.append(("in_rank", f"input {i}: {dims} vs {es_}"))
            continue
        for a, b in zip(dims, es_):
            if isinstance(b, int) and a != b:
                P.append(("in_dim", f"input {i}: {dims} vs {es_}"))
            if isinstance(b, str) and a != b:
                P.append(("in_symbol", f"input {i}: {dims} vs {es_}"))
        if ONNX_CLS.get(tt.elem_type) != CLS[dt.kind]:
            P.append(("in_class", f"input {i}: elem_type {tt.elem_type} vs {dt}"))
        if dt.kind == "f" and not dbl and tt.elem_type == E.DOUBLE:
            P.append(("double_in_single", f"input {i}"))
        if dt.kind in "iu" and tt.elem_type in BITS:
            with jaxutil.x64(dbl):
                canon = np.dtype(jax.dtypes.canonicalize_dtype(dt))  # what JAX itself traces the argument as
            if tt.elem_type != E.INT64 and BITS[tt.elem_type] != canon.itemsize * 8:
                P.append(("in_int_width", f"input {i}: elem_type {tt.elem_type} vs JAX {canon} (spec {dt}, {forms[i % len(forms)]})"))
    perm_out = {i: (0, 3, 1, 2) for i in kw.get("outputs_as_nchw", [])}
    for i, (v, e) in enumerate(zip(go, exp)):
        tt = v.type.tensor_type
        dims = [d.dim_param or d.dim_value for d in tt.shape.dim]
        k = np.dtype(e.dtype).kind
        eshape = tuple(e.shape) + ((2,) if k == "c" else ())
        if i in perm_out:
            eshape = tuple(eshape[j] for j in perm_out[i])
        if len(dims) != len(eshape):
            P.append(("out_rank", f"output {i}: {dims} vs {eshape}"))
            continue
        for a, b in zip(dims, eshape):
            if isinstance(b, int) and a != b and not (isinstance(a, str) or a == 0 and False):
                if isinstance(a, int) and a != 0:
                    P.append(("out_dim", f"output {i}: {dims} vs {eshape}"))
        want = "float" if k == "c" else CLS[k]
        if ONNX_CLS.get(tt.elem_type) != want:
            P.append(("out_class", f"output {i}: elem_type {tt.elem_type} vs {e.dtype}"))
        if k in "fc":
            ed = np.dtype(e.dtype)
            if not dbl and tt.elem_type == E.DOUBLE:
                P.append(("double_in_single", f"output {i}"))
            if dbl and ed in (np.dtype(np.float64), np.dtype(np.complex128)) and tt.elem_type != E.DOUBLE:
                P.append(("f64_not_double", f"output {i}: elem_type {tt.elem_type}"))
        if k in "iu":
            if tt.elem_type != E.INT64 and BITS.get(tt.elem_type) != np.dtype(e.dtype).itemsize * 8:
                P.append(("int_width", f"output {i}: elem_type {tt.elem_type} vs {e.dtype}"))
            if tt.elem_type != E.INT64 and (tt.elem_type in UNSIGNED) != (k == "u"):
                P.append(("int_sign", f"output {i}: elem_type {tt.elem_type} vs {e.dtype}"))
    feats = set()
    used = {o[1] % nin for o in sig["outs"] if o[0] == "in"} | {o[2] % nin for o in sig["outs"] if o[0] == "op"}
    if len(used) < nin:
        feats.add("unused_input")
    if any(o[0] == "in" for o in sig["outs"]):
        feats.add("passthrough")
    if any(f == "array" for f in (sig.get("forms") or [])[:nin]):
        feats.add("example_array_input")
    if any(o[0] == "dup" for o in sig["outs"]):
        feats.add("duplicate")
    if any(o[0] == "const" for o in sig["outs"]):
        feats.add("constant_output")
    if sig["layout"] in ("nested", "dict"):
        feats.add("nested_pytree")
    if any(d != np.dtype(np.float32) for _, d in ins):
        feats.add("non_f32_input")
    if any(isinstance(d, str) for s, _ in ins for d in s):
        feats.add("symbolic")
    for k_ in ("double", "param"):
        if sig[k_]:
            feats.add(k_)
    if mode != "none":
        feats.add("names:" + mode)
    if "inputs_as_nchw" in kw or "outputs_as_nchw" in kw:
        feats.add("layout_flags")
    if acc:
        acc.case(key=digest(sig), nontrivial=bool(feats))
        acc.tally("status", "violation" if P else "conforming")
        for f in feats:
            acc.tally("features", f)
    out = []
    seen = set()
    for facet, text in P:
        if facet in seen:
            continue
        seen.add(facet)
        out.append({"sig": {"facet": facet, "names_mode": mode if facet.startswith(("input_names", "output_names", "name_")) else "any"},
                    "case": case, "detail": f"{text} | features={sorted(feats)}"})
    return out


def plan(tier, seed):
    n = 16 if tier == "quick" else 48
    return [{"kind": "sig", "shard": i, "seed": seed, "examples": 60 if tier == "quick" else 1500} for i in range(n)]


def work(sh):
    import hypothesis
    from hypothesis import HealthCheck, Phase, given, settings

    acc = Acc()

    @hypothesis.seed(derive_seed(sh["seed"], "c05", sh["shard"]))
    @settings(max_examples=sh["examples"], deadline=None, database=None, suppress_health_check=list(HealthCheck),
              phases=[Phase.generate], report_multiple_bugs=False)
    @given(sig_strategy())
    def t(sig):
        vs = check_sig(sig, acc)
        if not vs and len(acc.samples) < 3:
            acc.samples.append(sig)
        for v in vs:
            acc.violation(v["sig"], v["case"], v["detail"])

    t()
    return acc.to_dict()


def replay(case):
    return check_sig(case["sig"], None)
