#!/usr/bin/env python3
"""Shrink every replay of a property and keep the smallest case per signature class in corpus/<prop>/.
usage: PYTHONPATH=/verif:<repo> python tools/harvest_corpus.py C02 key1,key2,...   (keys = signature fields forming the class)"""
import json, os, sys, glob
ROOT = os.path.dirname(os.path.dirname(os.path.abspath(__file__)))
sys.path.insert(0, ROOT)
from vf import core

def main():
    prop = sys.argv[1]; keys = sys.argv[2].split(",")
    recs = [json.load(open(f)) for f in sorted(glob.glob(os.path.join(ROOT, "replays", prop, "*.json")))]
    vs = [{"sig": r["sig"], "case": r["case"], "detail": r.get("detail", "")} for r in recs]
    out = []
    for o in core.run_pool(f"vf.props.{prop.lower()}", "shrink", vs):
        if o["ok"] and o["res"]:
            out.append(o["res"])
    best = {}
    for v in out:
        k = tuple(str(v["sig"].get(x)) for x in keys)
        size = len(core.canon(v["case"]))
        if k not in best or size < best[k][0]:
            best[k] = (size, v)
    d = os.path.join(ROOT, "corpus", prop); os.makedirs(d, exist_ok=True)
    for k, (size, v) in sorted(best.items()):
        name = "__".join(k).replace("/", "_")[:120] + ".json"
        json.dump({"property": prop, "sig": v["sig"], "detail": v["detail"], "case": v["case"]}, open(os.path.join(d, name), "w"), indent=1)
        print(size, name)

if __name__ == '__main__':
    main()
