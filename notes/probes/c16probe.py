import sys, os, warnings, collections
warnings.filterwarnings("ignore")
sys.path.insert(0,'/tmp/scratch_repo')
import numpy as np, jax, jax.numpy as jnp, onnx
import logging; logging.disable(logging.CRITICAL)
from jax import lax
from jax2onnx import to_onnx, onnx_function
import jax2onnx.converter.ir_optimizations as io
import jax2onnx.converter.conversion_api as ca
import onnxruntime as ort
ort.set_default_logger_severity(4)
from flax import nnx
conv=nnx.Conv(3,4,(3,3),rngs=nnx.Rngs(0))
@onnx_function
def blk(x): return jnp.tanh(x).astype(jnp.float32)@x.T
def p_conv(x): 
    h=conv(x); return jax.nn.relu(h)+jnp.mean(h,axis=(1,2),keepdims=True)
def p_fn(x): return blk(x)+blk(x*2)
def p_loop(x): return lax.fori_loop(0,3,lambda i,c: jnp.reshape(jnp.reshape(c,(-1,)),c.shape)*2+i, x)
def p_cast(x): return (x.astype(jnp.int32).astype(jnp.float32)+jnp.transpose(jnp.transpose(x))).sum(axis=0)
def p_drop(x): return nnx.Dropout(0.5,deterministic=True)(x)*jax.nn.sigmoid(x)*x
progs=[("conv_nchw",p_conv,[(2,8,8,3)],dict(inputs_as_nchw=[0],outputs_as_nchw=[0])),("fn",p_fn,[(3,4)],{}),("loop",p_loop,[(3,2)],{}),("cast",p_cast,[(3,4)],{}),("drop24",p_drop,[(3,4)],dict(opset=24))]
orig=io._OPTIMIZER_PASSES
class Boom(Exception): pass
def wrap(p, when):
    def mk(r):
        if r is None: return None
        def f(obj):
            if when=="before": raise Boom(p.name)
            r(obj); raise Boom(p.name)
        return f
    return io._OptimizerPass(name=p.name, model_runner=mk(p.model_runner), graph_runner=mk(p.graph_runner), function_graph_runner=p.function_graph_runner)
res=collections.Counter(); bad=[]
for name,fn,specs,kw in progs:
    base=to_onnx(fn,specs,**kw)
    s0=ort.InferenceSession(base.SerializeToString())
    rng=np.random.default_rng(0)
    feeds={i.name:rng.standard_normal([d if isinstance(d,int) else 2 for d in i.shape]).astype(np.float32) for i in s0.get_inputs()}
    ref=s0.run(None,feeds)
    for k in range(len(orig)):
        for when in ("before","after"):
            io._OPTIMIZER_PASSES=tuple(wrap(p,when) if i==k else p for i,p in enumerate(orig))
            try:
                try:
                    m=to_onnx(fn,specs,**kw)
                except Boom: res["raised_nonstrict"]+=1; bad.append((name,k,when,"raised in default policy")); continue
                try:
                    onnx.checker.check_model(m,full_check=True)
                    s=ort.InferenceSession(m.SerializeToString()); got=s.run(None,feeds)
                    ok=all(np.allclose(a,b,rtol=1e-5,atol=1e-6) for a,b in zip(ref,got))
                    res["ok" if ok else "mismatch"]+=1
                    if not ok: bad.append((name,k,orig[k].name,when,"mismatch"))
                except Exception as e:
                    res["invalid"]+=1; bad.append((name,k,orig[k].name,when,str(e)[:120]))
                # strict
                os.environ["JAX2ONNX_STRICT_OPTIMIZER_FAILURES"]="1"
                try:
                    to_onnx(fn,specs,**kw); res["strict_not_raised"]+=1; bad.append((name,k,when,"strict did not raise"))
                except Boom: res["strict_raised"]+=1
                finally: os.environ.pop("JAX2ONNX_STRICT_OPTIMIZER_FAILURES",None)
            finally: io._OPTIMIZER_PASSES=orig
print(res)
for b in bad[:30]: print(b)
