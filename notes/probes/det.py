import sys, os, json, hashlib, warnings
warnings.filterwarnings("ignore")
sys.path.insert(0,'/tmp'); sys.path.insert(0,'/repo')
import numpy as np, jax, jax.numpy as jnp
import logging; logging.disable(logging.CRITICAL)
from jax2onnx import to_onnx
import jitfix
from jax2onnx.plugins.plugin_system import PLUGIN_REGISTRY, EXAMPLE_REGISTRY, import_all_plugins
import_all_plugins()
cases=[]
for name, plugin in PLUGIN_REGISTRY.items():
    md = getattr(plugin,'metadata',None)
    if not md: continue
    for tc in md.get('testcases',[]): cases.append((md.get('context'), md.get('component'), tc))
for md in EXAMPLE_REGISTRY.values():
    for tc in md.get('testcases',[]): cases.append((md.get('context'), md.get('component'), tc))
step=int(sys.argv[1]); off=int(sys.argv[2]); order=sys.argv[3]
sel=[c for i,c in enumerate(cases) if i%step==off]
if order=="rev": sel=sel[::-1]
out={}
def export(tc):
    fn = tc.get("callable")
    if getattr(fn,"__jax2onnx_factory__",False): fn = fn.with_dtype(jnp.float32).instantiate()
    shapes=tc.get("input_shapes"); dts=tc.get("input_dtypes"); vals=tc.get("input_values")
    if shapes is not None:
        specs=[jax.ShapeDtypeStruct(tuple(s),d) for s,d in zip(shapes,dts)] if dts else [tuple(s) for s in shapes]
    elif vals is not None:
        base=[np.asarray(v) for v in vals]; base=[f.astype(np.float32) if f.dtype==np.float64 else (f.astype(np.int32) if f.dtype==np.int64 else f) for f in base]
        specs=[jax.ShapeDtypeStruct(f.shape,f.dtype) for f in base]
    else: specs=[]
    kw={}
    for k in ("inputs_as_nchw","outputs_as_nchw","normalization_mode","input_params"):
        if tc.get(k) is not None: kw[k]=tc[k]
    if tc.get("opset_version"): kw["opset"]=tc["opset_version"]
    m=to_onnx(fn, specs, **kw)
    if m.ByteSize()>30_000_000: return "big"
    return hashlib.sha256(m.SerializeToString(deterministic=True)).hexdigest()
for ctx,comp,tc in sel:
    k=f"{ctx}/{comp}/{tc['testcase']}"
    try: out[k]=export(tc)
    except Exception as e: out[k]="ERR "+type(e).__name__
# repeat first 20 again at end (history)
rep={}
for ctx,comp,tc in sel[:25]:
    k=f"{ctx}/{comp}/{tc['testcase']}"
    try: rep[k]=export(tc)
    except Exception as e: rep[k]="ERR "+type(e).__name__
json.dump({"out":out,"rep":rep}, open(sys.argv[4],"w"))
