import sys, warnings, os, tempfile, copy, collections
warnings.filterwarnings("ignore")
sys.path.insert(0,'/tmp/scratch_repo')
import numpy as np, jax, jax.numpy as jnp, onnx
from onnx import helper as h, TensorProto as TP, numpy_helper as nh
import logging; logging.disable(logging.CRITICAL)
from jax2onnx import to_onnx, allclose
import onnxruntime as ort
ort.set_default_logger_severity(4)
d=tempfile.mkdtemp()
W=np.random.RandomState(0).randn(4,3).astype(np.float32)
progs={
 "f32": (lambda x: jnp.tanh(x@W)+1.0, [(2,4)], [np.random.RandomState(1).randn(2,4).astype(np.float32)]),
 "int": (lambda x: (x*3+1).astype(jnp.int32), [jax.ShapeDtypeStruct((5,),np.int32)], [np.array([1,-2,3,100000,7],np.int32)]),
 "bool": (lambda x: x>0, [(5,)], [np.array([1,-2,0,3,-1],np.float32)]),
 "two": (lambda x: (x+1, jnp.sum(x,axis=0)), [(2,3)], [np.random.RandomState(2).randn(2,3).astype(np.float32)]),
 "cplx": (lambda x: jax.lax.complex(x,x*2), [(3,)], [np.array([1.,2.,3.],np.float32)]),
}
def out_append(m, oi, nodes, new_name, elem=None, shape=None):
    o=m.graph.output[oi]; old=o.name
    for n in nodes: m.graph.node.append(n)
    o.name=new_name
    if elem is not None: o.type.tensor_type.elem_type=elem
    o.type.tensor_type.ClearField("shape")
res=collections.Counter(); bad=[]
for pname,(fn,specs,feeds) in progs.items():
    base=to_onnx(fn,specs)
    def save(m,tag):
        p=os.path.join(d,f"{pname}_{tag}.onnx"); onnx.save(m,p); return p
    ok,msg=allclose(fn,save(base,"base"),feeds)
    res[("unmutated",ok)]+=1
    if not ok: bad.append((pname,"unmutated reported mismatch",msg))
    muts=[]
    o0=base.graph.output[0]; et=o0.type.tensor_type.elem_type; name0=o0.name
    def const(name,arr): return h.make_node("Constant",[],[name],value=nh.from_array(np.asarray(arr),name))
    if et==TP.FLOAT:
        for eps,label,should in ((1e-7,"tiny_add",True),(5e-3,"add_5e-3",False),(1.0,"add_1",False)):
            m=copy.deepcopy(base); out_append(m,0,[const("eps",np.float32(eps)),h.make_node("Add",[name0,"eps"],["mut_out"])],"mut_out"); muts.append((label,m,should))
        m=copy.deepcopy(base); out_append(m,0,[const("ax",np.array([0],np.int64)),h.make_node("Unsqueeze",[name0,"ax"],["mut_out"])],"mut_out"); muts.append(("unsqueeze",m,False))
        m=copy.deepcopy(base); out_append(m,0,[h.make_node("Cast",[name0],["mut_out"],to=TP.DOUBLE)],"mut_out",elem=TP.DOUBLE); muts.append(("cast_double_same_values",m,True))
        m=copy.deepcopy(base); out_append(m,0,[h.make_node("Cast",[name0],["mut_out"],to=TP.INT32)],"mut_out",elem=TP.INT32); muts.append(("cast_int_truncates",m,False))
        m=copy.deepcopy(base); out_append(m,0,[const("nanv",np.float32(np.nan)),h.make_node("Mul",[name0,"nanv"],["mut_out"])],"mut_out"); muts.append(("all_nan",m,False))
        m=copy.deepcopy(base); out_append(m,0,[h.make_node("Cast",[name0],["mut_out"],to=TP.FLOAT16)],"mut_out",elem=TP.FLOAT16); muts.append(("cast_f16_rounding_~1e-3",m,None))
    if et in (TP.INT32,TP.INT64):
        m=copy.deepcopy(base); out_append(m,0,[const("one",np.asarray(1,nh.to_array(nh.from_array(np.zeros(1,np.int32))).dtype if et==TP.INT32 else np.int64)),h.make_node("Add",[name0,"one"],["mut_out"])],"mut_out"); muts.append(("int_plus_one",m,False))
        m=copy.deepcopy(base); out_append(m,0,[h.make_node("Cast",[name0],["c64"],to=TP.INT64),const("big",np.asarray(2**32,np.int64)),h.make_node("Add",["c64","big"],["mut_out"])],"mut_out",elem=TP.INT64); muts.append(("int64_plus_2^32",m,False))
        m=copy.deepcopy(base); out_append(m,0,[h.make_node("Cast",[name0],["cf"],to=TP.FLOAT),const("half",np.float32(0.4)),h.make_node("Add",["cf","half"],["mut_out"])],"mut_out",elem=TP.FLOAT); muts.append(("int_as_float_plus_0.4",m,False))
    if et==TP.BOOL:
        m=copy.deepcopy(base); out_append(m,0,[h.make_node("Not",[name0],["mut_out"])],"mut_out"); muts.append(("not",m,False))
        m=copy.deepcopy(base); out_append(m,0,[h.make_node("Cast",[name0],["ci"],to=TP.INT32),const("two",np.asarray(2,np.int32)),h.make_node("Mul",["ci","two"],["mut_out"])],"mut_out",elem=TP.INT32); muts.append(("bool_as_int_times2",m,False))
    if len(base.graph.output)>1:
        m=copy.deepcopy(base); del m.graph.output[1]; muts.append(("drop_output",m,False))
        m=copy.deepcopy(base); a,b=copy.deepcopy(m.graph.output[0]),copy.deepcopy(m.graph.output[1]); del m.graph.output[:]; m.graph.output.extend([b,a]); muts.append(("swap_outputs",m,False))
    for label,m,should in muts:
        try:
            pass
            ok,msg=allclose(fn,save(m,label.replace("^","").replace("~","").replace(".","_")),feeds)
        except Exception as e:
            res[("exception",label)]+=1; bad.append((pname,label,"EXC "+type(e).__name__+": "+str(e)[:100])); continue
        res[(label,ok)]+=1
        if should is not None and ok!=should: bad.append((pname,label,f"allclose={ok} expected={should}",msg[:80]))
print(dict(res))
for b in bad: print("UNSOUND/ODD:",b)
print("x64 flag after:",jax.config.jax_enable_x64)
