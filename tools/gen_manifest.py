#!/usr/bin/env python3
"""Regenerates MANIFEST.json from the table below (keeps it schema-valid)."""
import json
import os

ROOT = os.path.dirname(os.path.dirname(os.path.abspath(__file__)))

def _c(text, note, technique, category="exploration"):
    return dict(category=category, text=text, design_ref="DESIGN.md §3", note=note, technique=technique)


CHECKS = {
    "C01": _c("Generated-input differential testing of the exported model against eager JAX in three layers: a sweep over every registered testcase with adversarial input pools (quick: seeded sample, thorough: all 1770 in both precisions), Hypothesis-generated well-typed compositions over ~130 guarded ops with blame localisation and input-class attribution, and dense elementwise lattices (half-integers, signed zeros, huge/tiny, all int8 pairs).",
              "Eager JAX (f32, with an f64 evaluation bounding JAX's own error) is the reference; ORT CPU executes the model; inputs given as fixed input_values are only rescaled; binning/structured-domain components are only reached through their authored inputs.",
              "Hypothesis program generation + catalog enumeration, differential oracle vs eager JAX with a JAX-f64 error band"),
    "C02": _c("Differential testing of the real optimizer pipeline, one pass at a time, on Hypothesis-generated ONNX graphs built from pattern-seeded neighbourhoods of every rewrite rule plus free steps (symbolic dims, generated output sets, Loop/If captures at depth 1-2 aimed at fold interiors, shared constants, tensor side operands, calls of model-local functions that share an operator's name), and on raw lowered models of generated JAX programs (optimizer switched off in-process) with generated intermediates promoted to graph outputs, followed by the function-body stage. Oracle: ORT(raw) == ORT(after pass k) in count, order, dtype, runtime shape and values; model stays checker-valid/loadable; declared output annotations stay consistent. Failures are bucketed by (pass, kind, flags), shrunk structurally and replayed from a committed corpus of former failures.",
              "ORT CPU is trusted as the executable semantics of both sides; graphs are bounded (<= ~25 nodes, dims <= 5, ranks <= 4); Dropout with dynamic training mode is excluded (random).",
              "Hypothesis grammar-based graph generation + per-pass differential execution in ONNX Runtime, structural shrinking, regression corpus"),
    "C03": _c("Validity predicates (onnx checker full_check, strict shape inference, ORT session creation, and an independent scope/SSA/function-signature walker) over exports of registered testcases (both precisions, drawn opsets) and Hypothesis-generated control-flow programs, @onnx_function histories, compositions and mixtures under jointly drawn configurations (opset, double precision, symbolic dims, custom names, return mode).",
              "Validity is what onnx 1.22's checker/strict inference and ORT 1.30 accept plus the walker's scope rules; missing ORT kernels are environment limits.",
              "Hypothesis program x configuration generation with validity-predicate oracles and an independent scope walker"),
    "C04": _c("One export with named dims, then a binding lattice ({1,2,3,5,7,16}, all pairs) compared with eager JAX on concrete shapes: generated dimension-expression trees and polynomial skeletons over two symbols (returned as values and used as reshape/arange/broadcast targets, also on NCHW-exposed images), generated compositions with symbolic leading dims, and every registered testcase declaring string dims.",
              "Eager JAX on concrete arrays defines the meaning of a symbolic program at a binding; loud rejections are counted.",
              "Hypothesis expression-grammar generation + binding-lattice enumeration, differential oracle vs eager JAX"),
    "C05": _c("Structural comparison of the exported interface with jax.eval_shape for Hypothesis-generated signatures (unused inputs, passthrough/duplicated/constant outputs, nested pytrees, 9 dtypes, symbols, two-sided broadcasts) under generated naming / precision / layout / input_params configurations, including self-colliding naming requests.",
              "jax.eval_shape is the reference structure; default names and float16 widths are not asserted.",
              "Hypothesis signature x configuration generation, structural oracle from jax.eval_shape"),
    "C06": _c("Generated control-flow programs (cond, switch, while incl. permuted multi-carry and data-dependent exit, fori incl. negative/empty bounds, scan with scanned inputs / two carries / stacked outputs / static, symbolic and zero length, reverse and unsupported variants; nesting <= 3) exported once and executed for every steering input (predicate, bound n, sequence length T) against eager JAX; unsupported variants must raise or be correct; failures are minimised to the construct that matters.",
              "Eager JAX is the reference for branch choice and trip count; non-finite steering inputs are skipped.",
              "Hypothesis control-flow grammar + steering-input enumeration, differential oracle vs eager JAX, body minimisation"),
    "C07": _c("Hypothesis-generated histories of call sites over a module-level library of plain / @onnx_function / unique twins (nnx, equinox with static fields, plain classes, functions with kwargs, nested functions, positional constants of the caller's graph, call-time flags in either keyword order run for all runtime flag values, a dtype-agnostic function on several element types; generated weights, static config, kwargs incl. hash-colliding values, input shapes, symbolic batch). Oracles: decorated == plain twin == eager JAX; two call nodes share a definition only if their call sites are in the same semantic class; arity and reference rules from the independent walker.",
              "The plain twin defines what the decorated program must compute; decorated targets live at module level.",
              "Hypothesis history generation with a reference-model (semantic-class partition) oracle and twin differential"),
    "C08": _c("Every annotated value of exported models (registered testcases incl. symbolic, generated control flow, compositions, @onnx_function call-site histories) is made observable by rewriting the model (extra graph outputs, Loop scan outputs, Loop-body output declarations read through the Loop node, function bodies run stand-alone per call site) and compared with the runtime dtype/rank/dims under several symbol bindings and trip counts; plus a before/after comparison around postprocess_ir_model (graph I/O untouched, intermediates only weakened).",
              "If-branch and function-internal annotations that cannot be exposed without changing semantics are counted, not checked.",
              "generated programs + model rewriting to observe annotations, invariant oracle (declared vs runtime)"),
    "C09": _c("Single precision: recursive scan of the returned ModelProto for any DOUBLE element type; double precision: when the x64 jaxpr has only float64 avals, ORT must agree with eager JAX x64 within 1e-9*scale on elements that a one-ulp input perturbation shows to be well conditioned (a float32 detour costs ~6e-8); the x64 flag must be unchanged after returning and raising calls. Programs: registered testcases, generated compositions, control flow, function histories.",
              "Eager JAX under x64 is the double reference; the perturbation probe selects comparable elements; programs with explicit float32 avals are outside clause (b).",
              "Hypothesis/catalog program generation, model scan + metamorphic conditioning probe + differential vs JAX x64"),
    "C10": _c("f from registered testcases and generated float compositions; T from {jit, jit(jit), inner jit, checkpoint, vmap with in_axes/out_axes variants, grad, jvp, vjp, custom_jvp / custom_vjp wrappers}; ORT(to_onnx(T(f))) vs eager T(f) under the C01 policy; identity-like transforms must not break export.",
              "Eager JAX of the transformed function is the reference; missing batching/differentiation rules that raise are loud rejections (counted).",
              "catalog x transformation enumeration + Hypothesis programs, differential oracle vs eager JAX"),
    "C11": _c("For opsets 21..27 (13..20 explored, unclaimed): every node (recursively, functions with their own imports) must exist in onnx.defs at the declared version with fitting arity and attribute names; declared version == requested; checker passes; ORT loads and equals the default-opset export (<= 26). Programs: registered testcases and generated control-flow / function / composition programs.",
              "onnx.defs of onnx 1.22 is the reference for operator signatures; ORT 1.30 cannot load opset 27.",
              "catalog x opset enumeration + Hypothesis programs, schema-conformance oracle and cross-opset differential"),
    "C12": _c("Metamorphic relation on generated image programs (conv, pooling, residual adds, internal transposes, shape-reading steps, symbolic batch and H/W; outputs incl. passthrough, 4-D keepdims reductions and one value observed twice) x every subset of eligible input/output indices: ORT(flagged)(P.x) == P.ORT(plain)(x) on selected outputs, identical on others, both equal eager JAX; declared shapes permuted; invalid requests raise.",
              "The plain export and eager JAX are the references; float tolerance 2e-4 relative.",
              "Hypothesis program generation + subset enumeration, metamorphic relation (layout permutation) with reference oracle"),
    "C13": _c("Hypothesis rule-based state machine in one process: successful conversions (programs, functions, jitted callables, both precisions, all return modes), failing conversions at each stage (tracing, unknown primitive at top/scan/function body, unwritable path) and fault injection into the plugin patch stack; invariant after every rule: identity snapshot of all jax/flax/equinox/dm_pix/einops module and class attributes, empty patch state, x64 flag, user-module pytree bytes, and bit-identical behavioural probes incl. every callable converted so far.",
              "Attribute identity + finite probe set observe host state; the baseline is taken after a warm-up conversion.",
              "Hypothesis stateful (rule-based) testing with fault injection and a snapshot invariant"),
    "C14": _c("One generated request list (registered testcases, compositions, function histories, control flow, NCHW programs) executed in fresh subprocesses with different PYTHONHASHSEED, plugin import permutations, request orders, interleaved failing conversions and eager jit calls, every request at two history positions; deterministic-serialization digests must be equal everywhere.",
              "Program generation happens once in the parent and is shipped as JSON; byte equality under SerializeToString(deterministic=True).",
              "generated schedules/histories across subprocesses, digest-equality invariant"),
    "C15": _c("Hypothesis rule-based state machine over a temp directory: exports in proto / ir / file mode (standard and web, canonical and accepted case/blank spellings) for parameter size classes around the 1 MiB spill threshold (incl. exactly at it, several large, int8) to paths reused across steps; invariant per step: proto == ir bytewise, reloaded file equal in graph and in SHA-256 of every decoded initializer, ORT outputs identical, web mode single file, sidecar present iff referenced.",
              "onnx.load + numpy_helper.to_array(base_dir) define 'reloaded from disk with sidecar'.",
              "Hypothesis stateful (rule-based) testing with a round-trip invariant"),
    "C16": _c("Fault enumeration over every optimizer pass index (0..17) x {raise before, raise after} x {top graph, function bodies} on six programs (thorough: also generated programs): the default policy must return a valid model equal to eager JAX and the strict setting must re-raise; plus every unsupported construct (unknown primitive, plugin removed from the registry, 3-way switch, reverse scan, traced fori bounds) at 7 placements (top, cond/while/scan/fori bodies, nested, @onnx_function body): raise or be correct.",
              "The pass table is the unit of abort; any exception type counts as loud.", "exhaustive fault-point enumeration + generated programs, validity and differential oracles", category="fault_enumeration"),
    "C17": _c("Exhaustive enumeration of every accepted (source, intermediate) element-type pair over all values of every <=16-bit source type (quick) and every <=32-bit source type (thorough), boundary-biased Hypothesis sampling for 64-bit/complex sources, an exhaustive [-20,20]^3 Range box and Hypothesis Range triples near every integer-type boundary through generated chains of value-preserving and value-changing ops. The decision is observed by running the real rewrite on Cast->Cast graphs; oracle: numpy/ml_dtypes cast semantics with ORT as confirming second oracle.",
              "Trusts numpy/ml_dtypes astype as the model of ONNX Cast for in-range values; 64-bit and complex sources are sampled; NaN payloads are not distinguished.",
              "exhaustive enumeration + Hypothesis property test against a numpy reference model (differential vs ORT)"),
    "C18": _c("(fn, model) pairs: a generated program is exported and the stored model mutated by one generated deviation (value shifts far outside tolerance, NaN/Inf, shape, count, order, dtype-class changes, benign controls); allclose may return True only if an independent comparison (direct ORT run, float64 / Python-int arithmetic) does not say 'definitely outside tolerance'; the x64 flag must survive returns, raising fn, missing/corrupt model files and bad feeds under both global flag settings.",
              "Factor-2 margin around the tolerance so boundary cases never count.", "mutation of stored models + Hypothesis programs, independent-reference oracle"),
    "C19": _c("Every tracing-time substitute (all MonkeyPatchSpecs of all leaf plugins, 308) x call forms generated from the original function's signature (each optional parameter by keyword / positionally): whenever the original binds a form, the substitute must bind it (exhaustive); plus recorded real calls of 222 substitutes re-expressed as all-keyword / explicit-defaults / all-positional single-call programs, exported and compared with the eager original.",
              "inspect.signature of the original describes the calls it accepts; re-expressions of one bound argument set must behave identically.",
              "exhaustive signature-form enumeration + recorded-call re-expression, differential oracle vs the original function"),
}

NOT_APPLICABLE = []


def main():
    props = [json.loads(l) for l in open(os.path.join(ROOT, "properties.jsonl"))]
    ids = [p["id"] for p in props]
    checks = []
    for pid in ids:
        if pid not in CHECKS:
            continue
        c = CHECKS[pid]
        checks.append(
            {
                "property_id": pid,
                "quick_cmd": f"./check {pid} --tier quick",
                "thorough_cmd": f"./check {pid} --tier thorough",
                "evidence_file": f"/verif/evidence/{pid}.json",
                "replay_cmd_template": f"./check {pid} --replay {{path}}",
                "engine": "vf",
                "level_claimed": {"category": c["category"], "text": c["text"], "design_ref": c["design_ref"]},
                "level_note": c["note"],
                "technique": c["technique"],
            }
        )
    na = list(NOT_APPLICABLE)
    claimed = {c["property_id"] for c in checks}
    listed = {n["property_id"] for n in na}
    for pid in ids:
        if pid not in claimed and pid not in listed:
            na.append({"property_id": pid, "reason": "check not built yet in this revision (planned: generated-input search per DESIGN.md §3); not claimed"})
    manifest = {
        "version": 1,
        "setup_cmd": "bash tools/setup.sh",
        "hooks": {
            "guard": "JAX2ONNX_VERIF",
            "enable": "no source hooks are needed: checks import /repo's working tree directly (PYTHONPATH=/repo) and swap module-level pass tables / registries in-process; ./check exports JAX2ONNX_VERIF=1 for completeness",
            "baseline_off_cmd": "cd /repo && /venv/bin/python -m pytest -ra -q -p no:cacheprovider --timeout=900 --continue-on-collection-errors",
            "source_commits": [],
            "add_only": True,
        },
        "engines": [
            {
                "name": "vf",
                "path": "/verif/vf",
                "serves_properties": sorted(claimed),
                "kind_free_text": "Hypothesis-driven property-based testing / generated-input search with explicit oracles (eager JAX, ORT differential, numpy reference models), 16 spawned worker processes, collect-bucket-shrink, JSON replay files",
            }
        ],
        "checks": checks,
        "not_applicable": na,
        "notes": "Genuine defects repaired in /repo as 'fix:' commits and open findings are listed per property in /verif/known_findings/*.json; see DESIGN.md.",
    }
    with open(os.path.join(ROOT, "MANIFEST.json"), "w") as fh:
        json.dump(manifest, fh, indent=1)
        fh.write("\n")
    try:
        import sys

        sys.path.insert(0, os.path.join(ROOT, ".deps"))
        import jsonschema

        jsonschema.validate(manifest, json.load(open("/root/.vp/MANIFEST.schema.json")))
        print("MANIFEST.json valid;", len(checks), "checks,", len(na), "not_applicable")
    except ImportError:
        print("MANIFEST.json written (jsonschema unavailable)")


if __name__ == "__main__":
    main()
