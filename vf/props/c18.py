"""C18 — the bundled validation helper (allclose) is a sound oracle."""

from __future__ import annotations

import copy
import os
import shutil
import tempfile

import numpy as np

from vf.core import Acc, derive_seed, digest

PROPERTY = "C18"
LEVEL = "exploration"
RULE = (
    "(fn, model) pairs: a Hypothesis-generated program (float/int/bool outputs, 1-3 outputs) is exported, saved, and the *stored model* is mutated "
    "by one generated deviation: Add(eps)/Mul(1+eps) on one output with eps far outside tolerance (both signs), one element forced to NaN/Inf, "
    "shape changes (Unsqueeze, flatten, transpose of a square tensor), dropped / duplicated / reordered outputs, dtype-class changes (float->int "
    "Cast, int->float with +-0.4/+-0.5, int32->int64 plus 2^32, bool->int times 2, integer off by one), and benign mutations (Cast to double, "
    "Identity) as controls; x tolerances x enable_double_precision. Oracle: an independent comparison (direct ORT run, eager JAX, float64 / Python-int "
    "arithmetic on un-cast values, shape and count equality). allclose may return True only if the independent comparison does not say "
    "'definitely outside tolerance' (factor-2 margin); the unmutated pair must return True (vacuity guard); jax_enable_x64 must be unchanged "
    "afterwards, also when fn raises. non-trivial = deviation definitely outside tolerance; distinct by (program digest, deviation, output index)."
)
ASSUMPTIONS = [
    "'within tolerance' is decided with a factor-2 margin around atol + rtol*max(|expected|,|got|) so that boundary cases never count",
    "the statement promises nothing about dtype class by itself: 1.0 vs 1 with equal values is a match",
]

TP = None


def _tp():
    global TP
    if TP is None:
        from onnx import TensorProto

        TP = TensorProto
    return TP


DEVIATIONS = ["add_pos", "add_neg", "mul", "nan_elem", "inf_elem", "unsqueeze", "flatten", "transpose_sq", "drop_output", "dup_output", "swap_outputs",
              "float_to_int_cast", "int_as_float_p04", "int_as_float_m04", "int_as_float_p05", "int64_plus_2_32", "bool_as_int_times2",
              "int_plus_one", "not_bool", "cast_double_benign", "identity_benign", "init_perturb"]


def mutate(model, dev, oi, rtol, atol):
    """Returns mutated copy or None when the deviation does not apply to output oi."""
    import onnx
    from onnx import helper as h, numpy_helper as nh

    T = _tp()
    m = copy.deepcopy(model)
    if oi >= len(m.graph.output):
        return None
    o = m.graph.output[oi]
    et = o.type.tensor_type.elem_type
    name0 = o.name
    shape = [d.dim_value for d in o.type.tensor_type.shape.dim] if o.type.tensor_type.HasField("shape") else None
    is_f = et in (T.FLOAT, T.DOUBLE)
    is_i = et in (T.INT32, T.INT64, T.INT8, T.INT16, T.UINT8)
    is_b = et == T.BOOL
    npdt = {T.FLOAT: np.float32, T.DOUBLE: np.float64, T.INT32: np.int32, T.INT64: np.int64, T.INT8: np.int8, T.INT16: np.int16, T.UINT8: np.uint8}.get(et)

    def const(name, arr):
        return h.make_node("Constant", [], [name], value=nh.from_array(np.asarray(arr), name))

    def retarget(nodes, elem=None):
        for n in nodes:
            m.graph.node.append(n)
        o.name = "mut_out"
        if elem is not None:
            o.type.tensor_type.elem_type = elem
        o.type.tensor_type.ClearField("shape")
        return m

    big = max(100 * atol, 0.05)
    if dev == "add_pos" and is_f:
        return retarget([const("mut_eps", npdt(big + 1.0)), h.make_node("Add", [name0, "mut_eps"], ["mut_out"])])
    if dev == "add_neg" and is_f:
        return retarget([const("mut_eps", npdt(-(big + 1.0))), h.make_node("Add", [name0, "mut_eps"], ["mut_out"])])
    if dev == "mul" and is_f:
        return retarget([const("mut_f", npdt(1.0 + max(100 * rtol, 0.5))), h.make_node("Mul", [name0, "mut_f"], ["mut_out"]),
                         ]) if False else retarget([const("mut_f", npdt(1.0 + max(100 * rtol, 0.5))), const("mut_b", npdt(big + 1.0)),
                                                    h.make_node("Mul", [name0, "mut_f"], ["mut_m"]), h.make_node("Add", ["mut_m", "mut_b"], ["mut_out"])])
    if dev in ("nan_elem", "inf_elem") and is_f and shape is not None and all(d > 0 for d in shape):
        n = int(np.prod(shape)) if shape else 1
        mask = np.zeros(n, bool)
        mask[0] = True
        mask = mask.reshape(shape)
        val = np.nan if dev == "nan_elem" else np.inf
        return retarget([const("mut_mask", mask), const("mut_v", npdt(val)), h.make_node("Where", ["mut_mask", "mut_v", name0], ["mut_out"])])
    if dev == "unsqueeze":
        return retarget([const("mut_ax", np.array([0], np.int64)), h.make_node("Unsqueeze", [name0, "mut_ax"], ["mut_out"])])
    if dev == "flatten" and shape is not None and len(shape) >= 2:
        return retarget([const("mut_sh", np.array([-1], np.int64)), h.make_node("Reshape", [name0, "mut_sh"], ["mut_out"])])
    if dev == "transpose_sq" and shape is not None and len(shape) == 2 and shape[0] == shape[1] and shape[0] > 1:
        return retarget([h.make_node("Transpose", [name0], ["mut_out"], perm=[1, 0])])
    if dev == "drop_output" and len(m.graph.output) > 1:
        del m.graph.output[oi]
        return m
    if dev == "dup_output":
        m.graph.node.append(h.make_node("Identity", [name0], ["mut_dup"]))
        extra = copy.deepcopy(o)
        extra.name = "mut_dup"
        m.graph.output.append(extra)
        return m
    if dev == "swap_outputs" and len(m.graph.output) > 1:
        outs = [copy.deepcopy(x) for x in m.graph.output]
        outs[0], outs[-1] = outs[-1], outs[0]
        del m.graph.output[:]
        m.graph.output.extend(outs)
        return m
    if dev == "float_to_int_cast" and is_f:
        return retarget([const("mut_h", npdt(0.4)), h.make_node("Add", [name0, "mut_h"], ["mut_a"]), h.make_node("Cast", ["mut_a"], ["mut_out"], to=T.INT32)], elem=T.INT32)
    if dev in ("int_as_float_p04", "int_as_float_m04", "int_as_float_p05") and is_i:
        d = {"int_as_float_p04": 0.4, "int_as_float_m04": -0.4, "int_as_float_p05": 0.5}[dev]
        return retarget([h.make_node("Cast", [name0], ["mut_cf"], to=T.DOUBLE), const("mut_h", np.float64(d)),
                         h.make_node("Add", ["mut_cf", "mut_h"], ["mut_out"])], elem=T.DOUBLE)
    if dev == "int64_plus_2_32" and is_i:
        return retarget([h.make_node("Cast", [name0], ["mut_c64"], to=T.INT64), const("mut_big", np.asarray(2**32, np.int64)),
                         h.make_node("Add", ["mut_c64", "mut_big"], ["mut_out"])], elem=T.INT64)
    if dev == "bool_as_int_times2" and is_b:
        return retarget([h.make_node("Cast", [name0], ["mut_ci"], to=T.INT32), const("mut_two", np.asarray(2, np.int32)),
                         h.make_node("Mul", ["mut_ci", "mut_two"], ["mut_m"]), const("mut_one", np.asarray(2, np.int32)),
                         h.make_node("Add", ["mut_m", "mut_one"], ["mut_out"])], elem=T.INT32)
    if dev == "int_plus_one" and is_i:
        return retarget([const("mut_one", np.asarray(1, npdt)), h.make_node("Add", [name0, "mut_one"], ["mut_out"])])
    if dev == "not_bool" and is_b:
        return retarget([h.make_node("Not", [name0], ["mut_out"])])
    if dev == "cast_double_benign" and et == T.FLOAT:
        return retarget([h.make_node("Cast", [name0], ["mut_out"], to=T.DOUBLE)], elem=T.DOUBLE)
    if dev == "identity_benign":
        return retarget([h.make_node("Identity", [name0], ["mut_out"])])
    if dev == "init_perturb":
        for t in m.graph.initializer:
            if t.data_type == T.FLOAT and int(np.prod(t.dims or [1])) >= 1:
                a = nh.to_array(t).copy()
                a.reshape(-1)[0] += 1000.0
                t.CopyFrom(nh.from_array(a, t.name))
                return m
        return None
    return None


def independent_verdict(exp_list, got_list, rtol, atol):
    """'outside' (definitely beyond tolerance), 'inside' (definitely within, margin 0.5) or 'boundary'."""
    if len(exp_list) != len(got_list):
        return "outside", "count"
    verdict = "inside"
    for e, g in zip(exp_list, got_list):
        e, g = np.asarray(e), np.asarray(g)
        if e.dtype.kind == "c" and g.dtype.kind != "c" and g.shape == e.shape + (2,):
            g = g[..., 0] + 1j * g[..., 1]
        if e.shape != g.shape:
            return "outside", "shape"
        if e.dtype.kind in "biu" and g.dtype.kind in "biu":
            ee = [int(x) for x in e.reshape(-1)]
            gg = [int(x) for x in g.reshape(-1)]
            if ee != gg:
                return "outside", "int_value"
            continue
        e64 = e.astype(np.complex128 if (e.dtype.kind == "c" or g.dtype.kind == "c") else np.float64)
        g64 = g.astype(e64.dtype)
        nan_e, nan_g = np.isnan(e64), np.isnan(g64)
        if (nan_e != nan_g).any():
            return "outside", "nan"
        ok = ~nan_e
        with np.errstate(all="ignore"):
            diff = np.abs(e64 - g64)
            bound = atol + rtol * np.maximum(np.abs(e64), np.abs(g64))
            inf_mis = np.isinf(e64) | np.isinf(g64)
            same_inf = inf_mis & (e64 == g64)
            if (inf_mis & ~same_inf & ok).any():
                return "outside", "inf"
            fin = ok & ~inf_mis
            if (diff[fin] > 2.0 * bound[fin]).any():
                return "outside", "value"
            if (diff[fin] > 0.5 * (atol + rtol * np.minimum(np.abs(e64), np.abs(g64)))[fin]).any():
                verdict = "boundary"
    return verdict, ""


def check_pair(prog, feed_seed, dev, oi, rtol, atol, double, workdir, acc=None):
    import jax
    import jax.numpy as jnp
    import onnx
    from jax2onnx import allclose
    from vf import jaxutil, onnxutil, progen

    out = []
    fn = progen.build(prog)
    case = {"kind": "pair", "prog": prog, "feed_seed": feed_seed, "dev": dev, "oi": oi, "rtol": rtol, "atol": atol, "double": double}
    rng = np.random.default_rng(feed_seed)
    feeds = []
    for dt, shape in prog["inputs"]:
        if dt == progen.F:
            feeds.append((rng.standard_normal(tuple(shape)) * 2).astype(np.float64 if double else np.float32))
        elif dt == progen.I:
            feeds.append(rng.integers(-5, 9, size=tuple(shape)).astype(np.int32))
        else:
            feeds.append(rng.integers(0, 2, size=tuple(shape)).astype(np.bool_))
    feeds = [np.asarray(f) for f in feeds]
    try:
        with jaxutil.x64(double):
            base = jaxutil.to_onnx(fn, progen.input_specs_for_export(prog, double=double), enable_double_precision=double)
    except Exception:
        if acc:
            acc.tally("status", "export_rejected")
            acc.case()
        return out
    flag_before = bool(jax.config.jax_enable_x64)
    p0 = os.path.join(workdir, "base.onnx")
    onnx.save(base, p0)
    try:
        ok0, msg0 = allclose(fn, p0, feeds, rtol=rtol, atol=atol, enable_double_precision=double)
    except Exception as e:
        if acc:
            acc.tally("status", "allclose_raised_on_unmutated")
        return out
    if bool(jax.config.jax_enable_x64) != flag_before:
        out.append({"sig": {"kind": "x64_flag_changed", "when": "return"}, "case": case, "detail": "jax_enable_x64 differs after allclose returned"})
        jax.config.update("jax_enable_x64", flag_before)
    if not ok0:
        if acc:
            acc.tally("status", "unmutated_reported_mismatch(vacuity_guard)")
        return out
    mut = mutate(base, dev, oi, rtol, atol)
    if mut is None:
        if acc:
            acc.tally("status", "deviation_not_applicable")
            acc.case()
        return out
    p1 = os.path.join(workdir, "mut.onnx")
    onnx.save(mut, p1)
    # independent comparison
    try:
        sess = onnxutil.session(mut)
        got = sess.run(None, {i.name: f for i, f in zip(sess.get_inputs(), feeds)})
    except Exception as e:
        if acc:
            acc.tally("status", "mutated_model_not_runnable")
        return out
    with jaxutil.x64(double):
        exp = jaxutil.flatten(fn(*[jnp.asarray(f) for f in feeds]))
    verdict, why = independent_verdict(exp, got, rtol, atol)
    try:
        ok1, msg1 = allclose(fn, p1, feeds, rtol=rtol, atol=atol, enable_double_precision=double)
    except Exception as e:
        ok1, msg1 = False, f"raised {type(e).__name__}"
        if acc:
            acc.tally("status", "allclose_raised_on_mutated")
    if bool(jax.config.jax_enable_x64) != flag_before:
        out.append({"sig": {"kind": "x64_flag_changed", "when": "return"}, "case": case, "detail": "jax_enable_x64 differs after allclose returned"})
        jax.config.update("jax_enable_x64", flag_before)
    if acc:
        acc.case(key=(digest(prog["stmts"]), dev, oi, double), nontrivial=(verdict == "outside"))
        acc.tally("deviation", f"{dev}:{verdict}:{'match' if ok1 else 'mismatch'}")
    if ok1 and verdict == "outside":
        edt = str(np.asarray(exp[min(oi, len(exp) - 1)]).dtype) if exp else "?"
        gdt = str(np.asarray(got[min(oi, len(got) - 1)]).dtype) if got else "?"
        out.append({"sig": {"kind": "unsound_match", "deviation": dev, "expected_kind": np.dtype(edt).kind if edt != "?" else "?", "got_kind": np.dtype(gdt).kind if gdt != "?" else "?"},
                    "case": case, "detail": f"allclose returned True although the stored model deviates ({why}); expected dtype {edt}, model dtype {gdt}"})
    return out


def check_raising_fn(workdir, double):
    """allclose must leave the x64 flag alone also when fn raises."""
    import jax
    import jax.numpy as jnp
    import onnx
    from jax2onnx import allclose
    from vf import jaxutil

    base = jaxutil.to_onnx(lambda x: jnp.tanh(x), [(3,)])
    p = os.path.join(workdir, "r.onnx")
    onnx.save(base, p)

    def boom(x):
        raise RuntimeError("user function fails")

    out = []
    corrupt = os.path.join(workdir, "corrupt.onnx")
    with open(corrupt, "wb") as fh:
        fh.write(b"not an onnx model")
    scenarios = [
        ("fn_raises", lambda: allclose(boom, p, [np.zeros((3,), np.float32)], enable_double_precision=double)),
        ("missing_model_file", lambda: allclose(lambda x: jnp.tanh(x), os.path.join(workdir, "does_not_exist.onnx"), [np.zeros((3,), np.float32)], enable_double_precision=double)),
        ("corrupt_model_file", lambda: allclose(lambda x: jnp.tanh(x), corrupt, [np.zeros((3,), np.float32)], enable_double_precision=double)),
        ("wrong_rank_feed", lambda: allclose(lambda x: jnp.tanh(x), p, [np.zeros((2, 3), np.float32)], enable_double_precision=double)),
        ("too_many_inputs", lambda: allclose(lambda x: jnp.tanh(x), p, [np.zeros((3,), np.float32), np.zeros((3,), np.float32)], enable_double_precision=double)),
        ("shape_tuple_input", lambda: allclose(lambda x: jnp.tanh(x), p, [(3,)], enable_double_precision=double)),
    ]
    for global_x64 in (False, True):
        for name, call in scenarios:
            jax.config.update("jax_enable_x64", global_x64)
            try:
                try:
                    call()
                except Exception:
                    pass
                after = bool(jax.config.jax_enable_x64)
            finally:
                jax.config.update("jax_enable_x64", False)
            if after != global_x64:
                out.append({"sig": {"kind": "x64_flag_changed", "when": name}, "case": {"kind": "raising", "double": double},
                            "detail": f"jax_enable_x64 {global_x64} -> {after} after allclose({name}, enable_double_precision={double})"})
    return out


def plan(tier, seed):
    n = 16 if tier == "quick" else 48
    return [{"kind": "pairs", "shard": i, "seed": seed, "examples": 14 if tier == "quick" else 330} for i in range(n)]


def work(sh):
    import hypothesis
    from hypothesis import HealthCheck, Phase, given, settings, strategies as st
    from vf import progen

    acc = Acc()
    workdir = tempfile.mkdtemp(prefix="vf_c18_")
    try:
        for dbl in (False, True):
            for v in check_raising_fn(workdir, dbl):
                acc.violation(v["sig"], v["case"], v["detail"])
            acc.case(key=("raising", dbl, sh["shard"]), nontrivial=False)

        @hypothesis.seed(derive_seed(sh["seed"], "c18", sh["shard"]))
        @settings(max_examples=sh["examples"], deadline=None, database=None, suppress_health_check=list(HealthCheck),
                  phases=[Phase.generate], report_multiple_bugs=False)
        @given(progen.programs(max_stmts=5, n_outputs=(1, 3)), st.integers(0, 10**6), st.lists(st.sampled_from(DEVIATIONS), min_size=3, max_size=5, unique=True),
               st.integers(0, 2), st.sampled_from([(1e-3, 1e-5), (1e-5, 1e-6), (1e-2, 1e-3)]), st.booleans())
        def t(prog, fs, devs, oi, tol, double):
            # make sure int / bool outputs occur: promote typed intermediates to outputs
            for dev in devs:
                vs = check_pair(prog, fs, dev, oi % max(1, len(prog["outputs"])), tol[0], tol[1], double, workdir, acc)
                for v in vs:
                    acc.violation(v["sig"], v["case"], v["detail"])
            if len(acc.samples) < 2:
                acc.samples.append({"outputs": prog.get("types"), "deviations": devs, "rtol_atol": tol, "double": double})

        t()
    finally:
        shutil.rmtree(workdir, ignore_errors=True)
    return acc.to_dict()


def replay(case):
    workdir = tempfile.mkdtemp(prefix="vf_c18r_")
    try:
        if case["kind"] == "raising":
            return check_raising_fn(workdir, case["double"])
        return check_pair(case["prog"], case["feed_seed"], case["dev"], case["oi"], case["rtol"], case["atol"], case["double"], workdir, None)
    finally:
        shutil.rmtree(workdir, ignore_errors=True)
