"""ONNX / ORT helpers shared by the property modules (ORT: CPU, 1 thread)."""

from __future__ import annotations

import base64
import io

import numpy as np
import onnx
import onnx_ir as ir
import onnxruntime as ort

ort.set_default_logger_severity(4)


def session(model: onnx.ModelProto | bytes, disable_opt=True) -> ort.InferenceSession:
    so = ort.SessionOptions()
    so.intra_op_num_threads = 1
    so.inter_op_num_threads = 1
    so.log_severity_level = 4
    if disable_opt:
        so.graph_optimization_level = ort.GraphOptimizationLevel.ORT_DISABLE_ALL
    data = model if isinstance(model, (bytes, bytearray)) else model.SerializeToString()
    return ort.InferenceSession(data, so, providers=["CPUExecutionProvider"])


def run(model, feeds: dict, disable_opt=True):
    sess = model if isinstance(model, ort.InferenceSession) else session(model, disable_opt)
    names = {i.name for i in sess.get_inputs()}
    return sess.run(None, {k: v for k, v in feeds.items() if k in names})


def optimize_proto(model: onnx.ModelProto, passes=None) -> onnx.ModelProto:
    """Run the repository optimizer (or the given pass objects) on a copy of `model`."""
    from jax2onnx.converter import ir_optimizations as opt

    m = ir.from_proto(model)
    if passes is None:
        opt.optimize_graph(m)
    else:
        for p in passes:
            opt._run_top_level_optimizer_pass(p, m)
    return ir.to_proto(m)


def arr_to_json(a) -> dict:
    a = np.asarray(a)
    buf = io.BytesIO()
    np.save(buf, a, allow_pickle=False)
    return {"npy": base64.b64encode(buf.getvalue()).decode()}


def arr_from_json(d) -> np.ndarray:
    return np.load(io.BytesIO(base64.b64decode(d["npy"])), allow_pickle=False)


def proto_to_json(m: onnx.ModelProto) -> dict:
    return {"onnx_b64": base64.b64encode(m.SerializeToString()).decode()}


def proto_from_json(d) -> onnx.ModelProto:
    m = onnx.ModelProto()
    m.ParseFromString(base64.b64decode(d["onnx_b64"]))
    return m


def same_bits(a: np.ndarray, b: np.ndarray, nan_equal=True) -> np.ndarray:
    """Elementwise bitwise equality (NaN == NaN of any payload when nan_equal)."""
    a = np.asarray(a)
    b = np.asarray(b)
    if a.shape != b.shape or a.dtype != b.dtype:
        raise ValueError("shape/dtype mismatch")
    if a.dtype == np.bool_:
        return a == b
    ua = a.reshape(-1).view(np.uint8).reshape(a.size, -1)
    ub = b.reshape(-1).view(np.uint8).reshape(b.size, -1)
    eq = (ua == ub).all(axis=1).reshape(a.shape)
    if nan_equal and a.dtype.kind in "fcV" or (nan_equal and a.dtype.kind not in "iub"):
        try:
            with np.errstate(all="ignore"):
                fa = a.astype(np.complex128 if a.dtype.kind == "c" else np.float64)
                fb = b.astype(np.complex128 if b.dtype.kind == "c" else np.float64)
            eq = eq | (np.isnan(fa) & np.isnan(fb))
        except (TypeError, ValueError):
            pass
    return eq
