"""Independent SSA / scope / function-signature walk over a ModelProto (does not use onnx_ir)."""

from __future__ import annotations

import onnx

STD_DOMAINS = {"", "ai.onnx", "ai.onnx.ml", "ai.onnx.training", "ai.onnx.preview.training", "com.microsoft", "com.microsoft.nchwc"}


def _subgraphs(node):
    for a in node.attribute:
        if a.type == onnx.AttributeProto.GRAPH:
            yield a.name, a.g
        elif a.type == onnx.AttributeProto.GRAPHS:
            for i, g in enumerate(a.graphs):
                yield f"{a.name}[{i}]", g


def walk(model: onnx.ModelProto):
    """Returns a list of problem strings (empty = well-formed by these rules)."""
    problems = []
    imports = {o.domain: o.version for o in model.opset_import}
    funcs = {}
    for f in model.functions:
        key = (f.domain, f.name, getattr(f, "overload", ""))
        if key in funcs:
            problems.append(f"function defined twice: {key}")
        funcs[key] = f
    referenced = set()

    def resolve(node):
        if node.domain in STD_DOMAINS:
            return None
        key = (node.domain, node.op_type, getattr(node, "overload", ""))
        f = funcs.get(key)
        if f is None:
            # overload-less lookup
            cands = [v for k, v in funcs.items() if k[0] == node.domain and k[1] == node.op_type]
            f = cands[0] if len(cands) == 1 else None
        return f if f is not None else "MISSING"

    def check_call(node, where, scope_imports):
        f = resolve(node)
        if f is None:
            return
        if f == "MISSING":
            problems.append(f"{where}: call {node.domain}::{node.op_type} has no FunctionProto")
            return
        referenced.add((f.domain, f.name, getattr(f, "overload", "")))
        if len(node.input) != len(f.input):
            problems.append(f"{where}: call {node.op_type} passes {len(node.input)} inputs, definition takes {len(f.input)}")
        if len(node.output) != len(f.output):
            problems.append(f"{where}: call {node.op_type} has {len(node.output)} outputs, definition returns {len(f.output)}")
        if node.domain not in scope_imports:
            problems.append(f"{where}: domain {node.domain!r} of call {node.op_type} not imported in this scope")

    def walk_graph(g, visible, where, scope_imports):
        defined = set()

        def define(name, what):
            if not name:
                return
            if name in defined:
                problems.append(f"{where}: name {name!r} defined twice in one scope ({what})")
            elif name in visible:
                problems.append(f"{where}: name {name!r} shadows an enclosing-scope name ({what})")
            defined.add(name)

        for i in g.input:
            define(i.name, "input")
        init_names = set()
        for t in g.initializer:
            if t.name in init_names:
                problems.append(f"{where}: initializer {t.name!r} defined twice")
            init_names.add(t.name)
            if t.name not in defined:  # an initializer may restate a graph input (default value)
                define(t.name, "initializer")
        for t in g.sparse_initializer:
            define(t.values.name, "sparse initializer")
        for idx, n in enumerate(g.node):
            for x in n.input:
                if x and x not in defined and x not in visible:
                    problems.append(f"{where}: node #{idx} {n.op_type} uses {x!r} before/without definition")
            for sub_name, sg in _subgraphs(n):
                walk_graph(sg, visible | defined, f"{where}/{n.op_type}#{idx}.{sub_name}", scope_imports)
            check_call(n, f"{where} node #{idx}", scope_imports)
            for o in n.output:
                define(o, f"output of node #{idx} {n.op_type}")
        for o in g.output:
            if o.name not in defined and o.name not in visible:
                problems.append(f"{where}: graph output {o.name!r} is not defined")
        return defined

    walk_graph(model.graph, set(), "graph", imports)

    for key, f in funcs.items():
        where = f"function {key[0]}::{key[1]}"
        fimports = {o.domain: o.version for o in f.opset_import}
        if key[0] not in imports:
            problems.append(f"{where}: its domain is not imported by the model")
        defined = set()
        for i in f.input:
            if i in defined:
                problems.append(f"{where}: input {i!r} listed twice")
            defined.add(i)
        for idx, n in enumerate(f.node):
            for x in n.input:
                if x and x not in defined:
                    problems.append(f"{where}: node #{idx} {n.op_type} uses free name {x!r} (function bodies own no initializers)")
            for sub_name, sg in _subgraphs(n):
                walk_graph(sg, set(defined), f"{where}/{n.op_type}#{idx}.{sub_name}", fimports)
            if n.domain not in STD_DOMAINS:
                check_call(n, f"{where} node #{idx}", fimports)
            elif n.domain not in fimports and not (n.domain in ("", "ai.onnx") and ("" in fimports or "ai.onnx" in fimports)):
                problems.append(f"{where}: node #{idx} {n.op_type} uses domain {n.domain!r} the function does not import")
            for o in n.output:
                if o and o in defined:
                    problems.append(f"{where}: name {o!r} defined twice (node #{idx})")
                if o:
                    defined.add(o)
        for o in f.output:
            if o not in defined:
                problems.append(f"{where}: output {o!r} is not defined")
    for key in funcs:
        if key not in referenced:
            problems.append(f"function {key[0]}::{key[1]} is defined but never called")
    return problems


def validity(model: onnx.ModelProto, ort_check=True):
    """All C03 predicates. Returns (problems: list[(check, text)], env_limits: list[str])."""
    problems, env = [], []
    try:
        onnx.checker.check_model(model, full_check=True)
    except Exception as e:
        problems.append(("checker", str(e)[:300]))
    try:
        onnx.shape_inference.infer_shapes(model, strict_mode=True)
    except Exception as e:
        problems.append(("strict_inference", str(e)[:300]))
    for p in walk(model):
        problems.append(("scope", p))
    if ort_check:
        import onnxruntime as ort
        from vf import onnxutil

        try:
            so = ort.SessionOptions()
            so.intra_op_num_threads = 1
            so.log_severity_level = 4
            ort.InferenceSession(model.SerializeToString(), so, providers=["CPUExecutionProvider"])
        except Exception as e:
            msg = str(e)
            if "NOT_IMPLEMENTED" in msg or "Could not find an implementation" in msg or "under development" in msg:
                env.append(msg[:160])
            else:
                try:
                    onnxutil.session(model, disable_opt=True)
                    env.append("loads only with ORT graph optimizations disabled: " + msg[:120])
                except Exception as e2:
                    m2 = str(e2)
                    if "NOT_IMPLEMENTED" in m2 or "Could not find an implementation" in m2:
                        env.append(m2[:160])
                    else:
                        problems.append(("ort_load", msg[:300]))
    return problems, env
