import sys, os, time, json, warnings, collections, itertools
warnings.filterwarnings("ignore")
TREE=os.environ.get("TREE","/tmp/scratch_repo"); sys.path.insert(0,TREE)
import numpy as np, jax, jax.numpy as jnp, onnx
from jax import lax
import logging; logging.disable(logging.CRITICAL)
from jax2onnx import to_onnx
import onnxruntime as ort
ort.set_default_logger_severity(4)
from hypothesis import given, settings, strategies as st, seed, HealthCheck, Phase
# body: transforms carry c (float32[3]) given environment env: k (float32[3] tracer derived from input), n (int32), p (bool), i (loop index or None), xrow (scan row or None)
ARITH=["c*0.5+k","jnp.sin(c)+1.0","c+CONST","c*c-k","jnp.where(c>k,c,k*0.5)","c+xrow","c+i","jnp.tanh(c)*2.0", "c-jnp.sum(k)"]
def body(depth):
    a=st.tuples(st.just("arith"),st.sampled_from(ARITH))
    if depth==0: return a
    sub=body(depth-1)
    return st.one_of(a,
        st.tuples(st.just("seq"),sub,sub),
        st.tuples(st.just("cond"),st.sampled_from(["p","jnp.sum(c)>0.0","n>1","jnp.logical_not(p)"]),sub,sub),
        st.tuples(st.just("switch2"),st.sampled_from(["n","n-1"]),sub,sub),
        st.tuples(st.just("while"),st.sampled_from(["n","n-1","2"]),sub),
        st.tuples(st.just("fori"),st.sampled_from([(0,0),(0,1),(0,3),(2,5)]),sub),
        st.tuples(st.just("scan_y"),sub),
        st.tuples(st.just("scan_len"),st.sampled_from([0,1,3]),sub))
CONST=np.array([0.25,-1.0,2.0],np.float32)
def run_body(b,c,env):
    t=b[0]
    if t=="arith":
        e=b[1]
        if "xrow" in e and env.get("xrow") is None: e=e.replace("xrow","k")
        if "+i" in e and env.get("i") is None: e=e.replace("+i","+1.0")
        loc=dict(c=c,k=env["k"],n=env["n"],p=env["p"],jnp=jnp,CONST=jnp.asarray(CONST),xrow=env.get("xrow"),i=(env.get("i").astype(jnp.float32) if env.get("i") is not None else None))
        return eval(e,loc)
    if t=="seq": return run_body(b[2],run_body(b[1],c,env),env)
    if t=="cond":
        pred=eval(b[1],dict(c=c,n=env["n"],p=env["p"],jnp=jnp))
        return lax.cond(pred,lambda v:run_body(b[2],v,env),lambda v:run_body(b[3],v,env),c)
    if t=="switch2":
        idx=eval(b[1],dict(n=env["n"]))
        return lax.switch(idx,[lambda v:run_body(b[2],v,env),lambda v:run_body(b[3],v,env)],c)
    if t=="while":
        bound=eval(b[1],dict(n=env["n"])); bound=jnp.asarray(bound,jnp.int32)
        def bd(st_):
            v,j=st_; return run_body(b[2],v,dict(env,i=j)),j+1
        return lax.while_loop(lambda st_:st_[1]<bound,bd,(c,jnp.int32(0)))[0]
    if t=="fori":
        lo,hi=b[1]; return lax.fori_loop(lo,hi,lambda j,v:run_body(b[2],v,dict(env,i=j)),c)
    if t=="scan_y":
        def step(v,row): 
            nv=run_body(b[1],v,dict(env,xrow=row)); return nv,nv.sum()
        out,ys=lax.scan(step,c,env["y"]); return out+jnp.sum(ys)
    if t=="scan_len":
        def step(v,_): 
            nv=run_body(b[2],v,env); return nv,None
        return lax.scan(step,c,None,length=b[1])[0]
def kinds(b,acc,d=0):
    if b[0]!="arith": acc[b[0]]+=1; acc["depth"]=max(acc["depth"],d+1)
    for x in b[1:]:
        if isinstance(x,tuple) and x and isinstance(x[0],str) and x[0] in ("arith","seq","cond","switch2","while","fori","scan_y","scan_len"): kinds(x,acc,d+(0 if b[0]=="seq" else 1))
    return acc
stats=collections.Counter(); fails={}; kindstat=collections.Counter()
S=jax.ShapeDtypeStruct
@seed(int(os.environ.get("VERIF_SEED","1")))
@settings(max_examples=int(sys.argv[1]), deadline=None, database=None, suppress_health_check=list(HealthCheck), phases=[Phase.generate])
@given(body(3), st.booleans())
def test(b,symT):
    acc=kinds(b,collections.Counter())
    if not any(k for k in acc if k not in("depth","seq")): stats["trivial_nocf"]+=1; return
    for k,v in acc.items(): kindstat[k]+= (1 if k!="depth" else 0)
    kindstat[f"depth{acc['depth']}"]+=1
    def fn(x,y,n,p):
        env=dict(k=y.sum(axis=0)*0.1+0.5 if y.shape[0]!=0 else jnp.full((3,),0.5), n=n,p=p,y=y)
        return run_body(b,x,env)
    specs=[S((3,),np.float32),S(("T" if symT else 2,3),np.float32),S((),np.int32),S((),np.bool_)]
    try: m=to_onnx(fn,specs)
    except Exception as e:
        stats["export_rejects:"+type(e).__name__]+=1; fails.setdefault(("reject",type(e).__name__,str(e)[:80]),json.dumps(b)[:200]); return
    probs=[]
    try: onnx.checker.check_model(m,full_check=True)
    except Exception as e: probs.append("checker:"+str(e)[:100])
    try: onnx.shape_inference.infer_shapes(m,strict_mode=True)
    except Exception as e: probs.append("strict:"+str(e)[:100])
    try:
        so=ort.SessionOptions(); so.graph_optimization_level=ort.GraphOptimizationLevel.ORT_DISABLE_ALL
        s=ort.InferenceSession(m.SerializeToString(),so,providers=["CPUExecutionProvider"])
    except Exception as e: probs.append("ort:"+str(e)[:120]); s=None
    if probs:
        stats["C03_VIOLATION"]+=1; fails.setdefault(("c03",probs[0][:70]),json.dumps(b)[:300])
        if s is None: return
    x=np.array([0.5,-1.5,2.0],np.float32)
    Ts=(0,1,2,4) if symT else (2,)
    for T,n,p in itertools.product(Ts,(0,1,2,5,-1),(False,True)):
        y=(np.arange(T*3,dtype=np.float32).reshape(T,3)*0.3-0.4)
        feeds=dict(in_0=x,in_1=y,in_2=np.asarray(n,np.int32),in_3=np.asarray(p))
        try: exp=np.asarray(fn(jnp.asarray(x),jnp.asarray(y),jnp.int32(n),jnp.asarray(p)))
        except Exception as e: stats["jax_rejects_input"]+=1; continue
        if not np.isfinite(exp).all(): stats["nonfinite_skip"]+=1; continue
        try: got=s.run(None,{k:v for k,v in feeds.items() if k in {i.name for i in s.get_inputs()}})[0]
        except Exception as e:
            stats["C06_VIOLATION"]+=1; fails.setdefault(("ort_run",str(e)[:90]),(json.dumps(b)[:300],T,n,p)); return
        if got.shape!=exp.shape or not np.allclose(got,exp,rtol=2e-4,atol=2e-5*max(1,np.abs(exp).max())):
            stats["C06_VIOLATION"]+=1; fails.setdefault(("value",acc["depth"]),(json.dumps(b)[:300],T,n,p,got.tolist(),exp.tolist())); return
        stats["steer_ok"]+=1
    stats["ok"]+=1
T0=time.time(); test()
print(TREE,round(time.time()-T0,1),dict(stats)); print(dict(kindstat))
for k,v in fails.items(): print("  ",k,str(v)[:420])
