import sys, inspect, collections, itertools, warnings
warnings.filterwarnings("ignore")
import logging; logging.disable(logging.CRITICAL)
import jax, jax.numpy as jnp, numpy as np
from jax2onnx.plugins.plugin_system import PLUGIN_REGISTRY, import_all_plugins, PrimitiveLeafPlugin, FunctionPlugin
from jax2onnx.plugins._patching import MonkeyPatchSpec, AssignSpec, _resolve
import_all_plugins()
subs=[]
for name,pl in PLUGIN_REGISTRY.items():
    if isinstance(pl, PrimitiveLeafPlugin):
        try: specs=pl.__class__.binding_specs()
        except Exception as e: print("binding_specs fail",name,e); continue
        for s in specs:
            if isinstance(s, MonkeyPatchSpec):
                try:
                    tgt=_resolve(s.target); orig=getattr(tgt,s.attr,None)
                    if orig is None: continue
                    sub=s.make_value(orig)
                    subs.append((f"{getattr(tgt,'__name__',tgt)}.{s.attr}", orig, sub, name))
                except Exception as e: print("make_value fail",name,s.attr,type(e).__name__,e)
print("substitutes:",len(subs))
S=object()
def forms(sig):
    """generate (args, kwargs) call forms from orig signature: each param positional / keyword / omitted(if default)"""
    ps=[p for p in sig.parameters.values()]
    out=[]
    base=[p for p in ps if p.kind in (p.POSITIONAL_ONLY,p.POSITIONAL_OR_KEYWORD,p.KEYWORD_ONLY)]
    # form A: all required positional where possible, each optional param individually by kw and positionally
    req=[p for p in base if p.default is p.empty]
    def build(choice):
        args=[];kw={}; positional_open=True
        for p in base:
            c=choice.get(p.name,"omit" if p.default is not p.empty else ("pos" if p.kind!=p.KEYWORD_ONLY else "kw"))
            if c=="omit": positional_open=False; continue
            if c=="pos" and positional_open and p.kind!=p.KEYWORD_ONLY: args.append(S)
            elif p.kind==p.POSITIONAL_ONLY: return None
            else: kw[p.name]=S; positional_open=False
        return tuple(args),kw
    out.append(("required-only",build({})))
    out.append(("all-required-by-kw",build({p.name:"kw" for p in req})))
    for p in base:
        if p.default is p.empty: continue
        out.append((f"{p.name}:kw",build({p.name:"kw"})))
        # positional: need all preceding params positional
        ch={}
        for q in base:
            if q.kind==q.KEYWORD_ONLY: break
            ch[q.name]="pos"
            if q.name==p.name: break
        if p.kind!=p.KEYWORD_ONLY: out.append((f"{p.name}:pos",build(ch)))
    return [(n,f) for n,f in out if f is not None]
bad=collections.defaultdict(list); nosig=0; tot=0
for qn,orig,sub,pn in subs:
    try: so=inspect.signature(orig); ss=inspect.signature(sub)
    except (TypeError,ValueError): nosig+=1; continue
    for fname,(a,k) in forms(so):
        try: so.bind(*a,**k)
        except TypeError: continue
        tot+=1
        try: ss.bind(*a,**k)
        except TypeError as e: bad[qn].append((fname,str(e)[:60]))
print("no signature:",nosig,"forms tried:",tot,"substitutes with binder-level failures:",len(bad))
for k,v in sorted(bad.items())[:60]: print("  ",k,v[:4])
