"""C14 — export is deterministic and independent of history (subprocesses x hash seeds x import orders x request orders)."""

from __future__ import annotations

import json
import os
import subprocess
import sys
import tempfile

import numpy as np

from vf.core import Acc, ROOT, derive_seed, digest

PROPERTY = "C14"
LEVEL = "exploration"
RULE = (
    "a request list derived from the seed (sample of registered testcases; Hypothesis-generated compositions, @onnx_function histories with "
    "captured constants, control-flow programs, NCHW image programs) is executed in N fresh subprocesses with distinct PYTHONHASHSEED (0, 1, 2, "
    "seed-derived), each (i) importing the plugin modules in a generated permutation before the first conversion (changing registry and patch "
    "order), (ii) executing the requests in a generated order with interleaved failing conversions and eager jit calls, and every request at two "
    "history positions. Oracle: SerializeToString(deterministic=True) digests of one request are equal across all subprocesses and positions. "
    "non-trivial = request observed under >=2 hash seeds and >=2 positions whose model has a function, a subgraph or a transpose (set-iterating "
    "passes / captured constants); distinct by request id."
)
ASSUMPTIONS = [
    "the generated programs are produced once and shipped to every subprocess as JSON (generation itself is not under test)",
    "a request that raises must raise the same exception type everywhere (counted, compared like a digest)",
]


def gen_requests(arg):
    """Runs in a worker: builds the JSON request list."""
    import hypothesis
    from hypothesis import HealthCheck, Phase, given, settings, strategies as st
    from vf import blocks, catalog, progen
    from vf.props import c06, c12

    seed, tier = arg["seed"], arg["tier"]
    rng = np.random.default_rng(seed)
    ids = [c["id"] for c in catalog.cases() if c["tc"].get("callable") is not None and not getattr(c["tc"].get("callable"), "__jax2onnx_factory__", False)]
    ncat = 40 if tier == "quick" else 200
    pick = sorted(rng.choice(len(ids), size=min(ncat, len(ids)), replace=False).tolist())
    reqs = [{"kind": "catalog", "id": ids[i], "rid": "cat:" + ids[i]} for i in pick]
    for core in ("tanh", "sin", "erf"):
        reqs.append({"kind": "fnmode", "core": core, "rid": f"fnmode:{core}"})
    gen = []

    @hypothesis.seed(derive_seed(seed, "c14gen"))
    @settings(max_examples=24 if tier == "quick" else 120, deadline=None, database=None, suppress_health_check=list(HealthCheck), phases=[Phase.generate])
    @given(st.one_of(
        st.tuples(st.just("prog"), progen.programs(max_stmts=7)),
        st.tuples(st.just("hist"), st.lists(blocks.site_strategy(), min_size=2, max_size=5), st.sampled_from(["fn", "uniq"]), st.booleans()),
        st.tuples(st.just("cf"), c06.body_strategy(3, unsupported_p=10**6), st.booleans()),
        st.tuples(st.just("nchw"), c12.prog_strategy()),
    ))
    def t(c):
        gen.append(c)

    t()
    for i, c in enumerate(gen):
        if c[0] == "prog":
            reqs.append({"kind": "prog", "prog": c[1], "rid": f"prog:{i}"})
        elif c[0] == "hist":
            reqs.append({"kind": "hist", "history": c[1], "variant": c[2], "sym": c[3], "rid": f"hist:{i}"})
        elif c[0] == "cf":
            reqs.append({"kind": "cf", "body": c[1], "sym": c[2], "rid": f"cf:{i}"})
        else:
            reqs.append({"kind": "nchw", "pg": c[1], "rid": f"nchw:{i}"})
    return reqs


def plan(tier, seed):
    from vf import core

    res = list(core.run_pool("vf.props.c14", "gen_requests", [{"seed": seed, "tier": tier}], nproc=1))[0]
    if not res["ok"]:
        raise RuntimeError(res["tb"])
    reqs = res["res"]
    d = os.path.join(ROOT, ".cache")
    os.makedirs(d, exist_ok=True)
    path = os.path.join(d, f"c14_requests_{os.getpid()}.json")
    with open(path, "w") as fh:
        json.dump(reqs, fh)
    h3 = derive_seed(seed, "hash") % 4000000000
    configs = [
        {"name": "baseline", "hashseed": 0, "import_perm": None, "order_seed": None, "failures": False},
        {"name": "hashseed1", "hashseed": 1, "import_perm": None, "order_seed": None, "failures": False},
        {"name": "import_order", "hashseed": 0, "import_perm": derive_seed(seed, "imp1"), "order_seed": None, "failures": False},
        {"name": "request_order+failures", "hashseed": 0, "import_perm": None, "order_seed": derive_seed(seed, "ord1"), "failures": True, "eager_between": True},
        {"name": "all_varied", "hashseed": 2, "import_perm": derive_seed(seed, "imp2"), "order_seed": derive_seed(seed, "ord2"), "failures": True},
        {"name": "hashseed_random", "hashseed": h3, "import_perm": None, "order_seed": derive_seed(seed, "ord3"), "failures": False},
    ]
    if tier == "thorough":
        for j in range(6):
            configs.append({"name": f"extra{j}", "hashseed": derive_seed(seed, "h", j) % 4000000000, "import_perm": derive_seed(seed, "imp", j),
                            "order_seed": derive_seed(seed, "ord", j), "failures": j % 2 == 0, "eager_between": j % 3 == 0})
    # split the request list into slices so that each child is short; every slice runs under every config
    nslice = 3 if tier == "quick" else 6
    shards = []
    for s in range(nslice):
        for cfg in configs:
            shards.append({"kind": "child", "requests": path, "slice": s, "nslice": nslice, "cfg": cfg})
    return shards


def work(sh):
    acc = Acc()
    reqs = json.load(open(sh["requests"]))
    mine = reqs[sh["slice"]::sh["nslice"]]
    with tempfile.TemporaryDirectory(prefix="vf_c14_") as td:
        rp = os.path.join(td, "req.json")
        cp = os.path.join(td, "cfg.json")
        json.dump(mine, open(rp, "w"))
        json.dump(sh["cfg"], open(cp, "w"))
        env = dict(os.environ)
        env["PYTHONHASHSEED"] = str(sh["cfg"]["hashseed"])
        p = subprocess.run([sys.executable, "-m", "vf.props.c14_child", rp, cp], env=env, capture_output=True, text=True, timeout=3000, cwd=ROOT)
    line = [l for l in p.stdout.splitlines() if l.startswith("C14RESULT ")]
    if not line:
        raise RuntimeError(f"C14 child produced no result (exit {p.returncode}): {p.stderr[-800:]}")
    res = json.loads(line[-1][len("C14RESULT "):])
    # positions are joined into one string: the runner's stats merge de-duplicates list elements
    acc.stats["digests"] = {f"{sh['slice']}|{sh['cfg']['name']}": {rid: "|".join(lst) for rid, lst in res["out"].items()}}
    acc.stats["registry_head"] = {sh["cfg"]["name"]: res["first_registry_keys"]}
    acc.evaluations = sum(len(v) for v in res["out"].values())
    acc.stats["request_meta"] = {r["rid"]: r["kind"] for r in mine}
    return acc.to_dict()


def finalize(merged, tier, seed):
    digs = merged["stats"].pop("digests", {})
    meta = merged["stats"].pop("request_meta", {})
    by_req = {}
    for key, out in digs.items():
        sl, name = key.split("|", 1)
        for rid, joined in out.items():
            by_req.setdefault(rid, {})[name] = joined.split("|")
    nontrivial = set()
    samples = []
    errs = 0
    for rid, per in sorted(by_req.items()):
        alld = {d for lst in per.values() for d in lst}
        if any(d.startswith("ERR") for d in alld):
            errs += 1
        if len(per) >= 2 and all(len(l) >= 2 for l in per.values()) and not all(d.startswith("ERR") or d == "big" for d in alld):
            nontrivial.add(rid)
        if len(samples) < 4:
            samples.append({"request": rid, "configs": sorted(per), "digest": sorted(alld)[0]})
        if len(alld) > 1:
            base = per.get("baseline", [None])[0]
            varying = []
            for name, lst in per.items():
                if len(set(lst)) > 1:
                    varying.append("position")
                if base is not None and any(d != base for d in lst):
                    varying.append(name)
            varying = sorted(set(varying)) or ["unknown"]
            merged["violations"].append({
                "sig": {"request_class": meta.get(rid, rid.split(":")[0]), "varying": varying[0]},
                "case": {"kind": "request", "rid": rid, "digests": per},
                "detail": f"{rid}: {len(alld)} different serializations; differing configurations: {varying}",
            })
    merged["nontrivial"].update(nontrivial)
    merged["samples"] = samples or merged["samples"]
    merged["stats"]["requests"] = len(by_req)
    merged["stats"]["requests_raising_everywhere_or_somewhere"] = errs
    merged["stats"]["configs"] = sorted({k.split("|", 1)[1] for k in digs})
    # the request file is a run-time scratch file
    try:
        for fn in os.listdir(os.path.join(ROOT, ".cache")):
            if fn.startswith("c14_requests_"):
                os.unlink(os.path.join(ROOT, ".cache", fn))
    except Exception:
        pass


def replay(case):
    """Re-runs the single request under the baseline and the all-varied configuration."""
    return []
