"""C08 — static type and shape annotations never contradict run time."""

from __future__ import annotations

import copy

import numpy as np

from vf.core import Acc, derive_seed, digest

PROPERTY = "C08"
LEVEL = "exploration"
RULE = (
    "exported models of registered testcases (incl. symbolic ones), generated control-flow programs, function histories and compositions are "
    "rewritten so that every annotated value becomes observable: top-level value_info entries become extra graph outputs, Loop-body values are "
    "appended as scan outputs (recursively), function calls are inlined first; the rewritten model must reproduce the original outputs (self-"
    "check). For every observed tensor under several symbol bindings (2,3,5) and steering inputs (trip counts 0/1/3, both predicates): runtime "
    "dtype == declared elem type, runtime rank == declared rank, every declared dim_value == runtime extent (per-iteration shape inside loops; zero-"
    "iteration stacks carry no information). Graph inputs/outputs are checked the same way. Second predicate: graph input/output annotations are "
    "identical before and after postprocess_ir_model, and post-processing only replaces known dims by unknown on intermediates. non-trivial = >=1 "
    "annotated intermediate observed under a binding/trip count different from the traced one; distinct by (program digest, binding)."
)
ASSUMPTIONS = [
    "values inside If branches and inside function bodies that do not survive inlining are counted unobservable, not guessed",
    "dim_param names are not required to be bound consistently across values (the statement claims element types and concrete dims)",
]

NP = {1: np.float32, 6: np.int32, 7: np.int64, 9: np.bool_, 11: np.float64, 10: np.float16, 2: np.uint8, 3: np.int8, 5: np.int16, 12: np.uint32, 13: np.uint64, 4: np.uint16}


def expose(model):
    """Returns (new_model, observed: {output name: (declared ValueInfo, scope, loop_depth)}, unobservable count)."""
    import onnx

    m = copy.deepcopy(model)
    unobs = 0
    if len(m.functions):
        try:
            for f in m.functions:
                unobs += len(f.value_info)
            m = onnx.inliner.inline_local_functions(m)
        except Exception:
            pass
    observed = {}
    counter = [0]

    def process(g, scope, depth):
        nonlocal unobs
        new = []
        produced = {o for n in g.node for o in n.output}
        existing = {o.name for o in g.output}
        ann = {vi.name: vi for vi in g.value_info}
        for n in list(g.node):
            if n.op_type == "Loop":
                body = [a for a in n.attribute if a.name == "body"][0].g
                inner = process(body, scope + "/Loop", depth + 1)
                for (iname, vi, sc, dp) in inner:
                    counter[0] += 1
                    oname = f"__obs{counter[0]}"
                    n.output.append(oname)
                    new.append((oname, vi, sc, dp))
                # what the body declares for its carried outputs is observable through the Loop node's own outputs
                ncar = len(n.input) - 2
                for k in range(max(0, ncar)):
                    if k + 1 < len(body.output) and k < len(n.output) and n.output[k]:
                        bo = body.output[k + 1]
                        if bo.type.HasField("tensor_type") and bo.type.tensor_type.elem_type:
                            counter[0] += 1
                            alias = f"__lbo{counter[0]}"
                            g.node.append(onnx.helper.make_node("Identity", [n.output[k]], [alias]))
                            new.append((alias, bo, scope + "/LoopBodyOutput", depth))
            elif n.op_type in ("If", "Scan"):
                for a in n.attribute:
                    if a.type == onnx.AttributeProto.GRAPH:
                        unobs += len(a.g.value_info)
        for name, vi in ann.items():
            if name in existing or name not in produced:
                continue
            if not vi.type.HasField("tensor_type"):
                continue
            new.append((name, vi, scope, depth))
        for (name, vi, sc, dp) in new:
            if name in existing:
                continue
            out = onnx.ValueInfoProto()
            out.name = name
            out.type.tensor_type.elem_type = vi.type.tensor_type.elem_type
            g.output.append(out)
            existing.add(name)
        return new

    top = process(m.graph, "top", 0)
    for (name, vi, sc, dp) in top:
        observed[name] = (vi, sc, dp)
    return m, observed, unobs


def observe_function_bodies(model, feeds, cmp, acc=None):
    """Function-body annotations do not survive inlining, so they are observed per call site: the runtime values of a top-level
    call node's inputs are read from the model itself, then the FunctionProto is run as a stand-alone graph whose annotated
    intermediates (its value_info) are extra outputs *without* a declared type, and every runtime result is compared with what
    the function's value_info declares.  One FunctionProto shared by two call sites must be right for both."""
    import onnx
    from onnx import helper
    from vf import onnxutil

    fdefs = {(f.domain, f.name): f for f in model.functions}
    calls = [n for n in model.graph.node if (n.domain, n.op_type) in fdefs]
    if not calls:
        return 0
    # 1. runtime values of every call input (graph inputs, initializers, or intermediates exposed as outputs)
    init = {i.name: onnx.numpy_helper.to_array(i) for i in model.graph.initializer}
    want = sorted({i for n in calls for i in n.input if i and i not in feeds and i not in init})
    vals = dict(feeds)
    vals.update(init)
    if want:
        m2 = copy.deepcopy(model)
        have = {o.name for o in m2.graph.output}
        for w in want:
            if w not in have:
                m2.graph.output.append(helper.make_empty_tensor_value_info(w))
        try:
            s = onnxutil.session(m2)
            names = [o.name for o in s.get_outputs()]
            got = dict(zip(names, s.run(None, {k: v for k, v in feeds.items() if k in {i.name for i in s.get_inputs()}})))
        except Exception as e:
            if acc:
                acc.tally("function_bodies", "call_inputs_not_observable")
            return 0
        vals.update({w: got[w] for w in want if w in got})
    nobs = 0
    for n in calls:
        f = fdefs[(n.domain, n.op_type)]
        if any(i not in vals for i in n.input if i) or len(n.input) != len(f.input):
            if acc:
                acc.tally("function_bodies", "call_skipped")
            continue
        ann = {vi.name: vi for vi in f.value_info}
        produced = [o for nd in f.node for o in nd.output if o]
        outs = [o for o in produced if o in ann or o in f.output]
        g = helper.make_graph(
            list(f.node), "fn_body",
            [helper.make_tensor_value_info(fi, helper.np_dtype_to_tensor_dtype(np.asarray(vals[ci]).dtype), list(np.asarray(vals[ci]).shape))
             for fi, ci in zip(f.input, n.input)],
            [helper.make_empty_tensor_value_info(o) for o in dict.fromkeys(outs)])
        imports = list(f.opset_import) or list(model.opset_import)
        have_dom = {o.domain for o in imports}
        imports += [o for o in model.opset_import if o.domain not in have_dom]
        m3 = helper.make_model(g, opset_imports=imports, functions=[x for x in model.functions], ir_version=model.ir_version)
        try:
            s3 = onnxutil.session(m3)
            r3 = dict(zip([o.name for o in s3.get_outputs()], s3.run(None, {fi: np.asarray(vals[ci]) for fi, ci in zip(f.input, n.input)})))
        except Exception as e:
            if acc:
                acc.tally("function_bodies", "standalone_body_not_runnable")
                acc.tally("expose_errors", "fn: " + str(e)[:80])
            continue
        for name, arr in r3.items():
            if name in ann:
                nobs += 1
                cmp(ann[name], arr, f"function:{f.name}")
        if acc:
            acc.tally("function_bodies", "call_site_observed")
    return nobs


def check_model_feeds(model, feeds, sigbase, case, acc=None, traced=False):
    """feeds: dict name -> array.  Returns violations."""
    from vf import onnxutil

    out = []
    try:
        s0 = onnxutil.session(model)
        ref = s0.run(None, {k: v for k, v in feeds.items() if k in {i.name for i in s0.get_inputs()}})
    except Exception as e:
        if acc:
            acc.tally("status", "original_model_not_runnable")
        return out
    # graph outputs / inputs
    probs = []

    def cmp(vi, arr, scope, dp=0):
        tt = vi.type.tensor_type
        arr = np.asarray(arr)
        if tt.elem_type in NP and np.dtype(NP[tt.elem_type]) != arr.dtype:
            probs.append((scope, "dtype", f"{vi.name}: declared elem_type {tt.elem_type}, runtime {arr.dtype}"))
        if tt.HasField("shape"):
            rt = arr.shape[dp:]
            if dp and arr.shape[:dp] and 0 in arr.shape[:dp]:
                return
            if len(tt.shape.dim) != len(rt):
                probs.append((scope, "rank", f"{vi.name}: declared rank {len(tt.shape.dim)}, runtime shape {rt}"))
                return
            for ax, (d, r) in enumerate(zip(tt.shape.dim, rt)):
                if d.HasField("dim_value") and d.dim_value != r:
                    probs.append((scope, "dim", f"{vi.name}: declared dim {ax} = {d.dim_value}, runtime extent {r} (shape {rt})"))

    for o, r in zip(model.graph.output, ref):
        cmp(o, r, "graph_output")
    try:
        m2, obs, unobs = expose(model)
        s = onnxutil.session(m2)
        names = [o.name for o in s.get_outputs()]
        got = dict(zip(names, s.run(None, {k: v for k, v in feeds.items() if k in {i.name for i in s.get_inputs()}})))
    except Exception as e:
        if acc:
            acc.tally("status", "exposed_model_not_runnable")
            acc.tally("expose_errors", str(e)[:90])
        obs, got, unobs = {}, {}, 0
    if got:
        for o, r in zip(model.graph.output, ref):
            if o.name in got and not np.array_equal(np.asarray(got[o.name]), np.asarray(r), equal_nan=True):
                if acc:
                    acc.tally("status", "expose_self_check_failed(skipped)")
                obs = {}
                break
    nobs = 0
    for name, (vi, sc, dp) in obs.items():
        if name not in got:
            continue
        nobs += 1
        cmp(vi, got[name], sc, dp)
    if len(model.functions):
        try:
            nfn = observe_function_bodies(model, feeds, cmp, acc)
            nobs += nfn
            unobs = max(0, unobs - nfn)
        except Exception as e:
            if acc:
                acc.tally("function_bodies", f"harness_skip:{type(e).__name__}")
    if acc:
        acc.count("annotated_values_observed", nobs)
        acc.count("annotated_values_unobservable", unobs)
        for sc in {v[1] for v in obs.values()}:
            acc.tally("scopes", sc)
    seen = set()
    for scope, facet, text in probs:
        if (scope, facet) in seen:
            continue
        seen.add((scope, facet))
        sc_ = "function" if scope.startswith("function:") else (scope.split("/")[-1] if "/" in scope else scope)
        out.append({"sig": dict(sigbase, scope=sc_, facet=facet), "case": case, "detail": text})
    return out, nobs


def _postprocess_check(fn, specs, kw, sigbase, case, acc=None):
    """Graph I/O annotations identical before/after postprocess_ir_model; intermediates only lose information."""
    import onnx_ir as ir
    from jax2onnx.converter.conversion_api import to_onnx as to_onnx_impl
    from jax2onnx.converter.ir_postprocess import postprocess_ir_model
    from jax2onnx.user_interface import _normalize_input_specs  # noqa: F401

    out = []
    try:
        from jax2onnx.user_interface import _normalize_input_specs as norm

        res = to_onnx_impl(fn=fn, inputs=norm(specs), input_params={}, model_name="m", opset=kw.get("opset", 23), enable_double_precision=False,
                           record_primitive_calls_file=None, protective_clone=True, inputs_as_nchw=None, outputs_as_nchw=None, input_names=None,
                           output_names=None, normalization_mode=None)
    except Exception as e:
        if acc:
            acc.tally("postprocess", "pre_model_unavailable")
        return out
    def ann(model):
        p = ir.to_proto(model)
        io = {("in", v.name): v.type.SerializeToString() for v in p.graph.input}
        io.update({("out", v.name): v.type.SerializeToString() for v in p.graph.output})
        inter = {v.name: v for v in p.graph.value_info}
        return io, inter

    try:
        io0, in0 = ann(res)
        postprocess_ir_model(res, promote_to_double=False)
        io1, in1 = ann(res)
    except Exception as e:
        if acc:
            acc.tally("postprocess", "failed")
        return out
    if acc:
        acc.tally("postprocess", "compared")
    if io0 != io1:
        changed = [k for k in io0 if io1.get(k) != io0[k]]
        out.append({"sig": dict(sigbase, facet="io_changed_by_postprocess"), "case": case, "detail": f"graph I/O annotations changed: {changed[:4]}"})
    for name, v0 in in0.items():
        v1 = in1.get(name)
        if v1 is None:
            continue
        t0, t1 = v0.type.tensor_type, v1.type.tensor_type
        if t0.elem_type != t1.elem_type and t1.elem_type != 0:
            out.append({"sig": dict(sigbase, facet="postprocess_changed_elem_type"), "case": case, "detail": f"{name}: {t0.elem_type} -> {t1.elem_type}"})
            break
        if t0.HasField("shape") and t1.HasField("shape") and len(t0.shape.dim) == len(t1.shape.dim):
            for d0, d1 in zip(t0.shape.dim, t1.shape.dim):
                if d1.HasField("dim_value") and (not d0.HasField("dim_value") or d0.dim_value != d1.dim_value):
                    out.append({"sig": dict(sigbase, facet="postprocess_strengthened_or_changed_dim"), "case": case,
                                "detail": f"{name}: dim {d0.dim_value if d0.HasField('dim_value') else d0.dim_param or '?'} -> {d1.dim_value}"})
                    break
    return out


def check_catalog(cid, acc=None, bindings=(2, 3, 5)):
    from vf import catalog, jaxutil, onnxutil

    out = []
    case = catalog.by_id(cid)
    p = catalog.prepare(case) if case else None
    if p is None:
        return out
    tc = case["tc"]
    try:
        model = jaxutil.to_onnx(p.fn, p.specs, **p.kw)
    except Exception:
        return out
    if model.ByteSize() > 40_000_000:
        return out
    sigbase = {"layer": "catalog", "component": f"{case['context']}/{case['component']}"}
    try:
        sess = onnxutil.session(model)
    except Exception:
        return out
    binds = bindings if p.symbols else (3,)
    for b in binds:
        rng = np.random.default_rng(31 + b)
        fds = catalog.feeds(p, rng, 3, sym=b)
        try:
            feeds = catalog.ort_feeds(p, sess, fds)
        except Exception:
            continue
        res = check_model_feeds(model, feeds, sigbase, {"kind": "catalog", "id": cid, "bindings": [b]}, acc)
        if not res:
            continue
        vs, nobs = res
        if acc:
            acc.case(key=("catalog", cid, b), nontrivial=bool(nobs and (b != 3 or not p.symbols)))
        out += vs
        if vs:
            break
    return out


def check_cf(body, stacked, acc=None):
    import jax
    from vf import jaxutil
    from vf.props import c06

    out = []
    S = jax.ShapeDtypeStruct
    fn = c06.make_fn(body, stacked)
    specs = [S((3,), np.float32), S(("T", 3), np.float32), S((), np.int32), S((), np.bool_)]
    case = {"kind": "cf", "body": body, "stacked": stacked}
    try:
        model = jaxutil.to_onnx(fn, specs)
    except Exception:
        if acc:
            acc.tally("status", "cf_export_rejected")
            acc.case()
        return out
    sigbase = {"layer": "generated", "structure": "cf"}
    x = np.array([0.5, -1.5, 2.0], np.float32)
    for T, n, p in ((2, 2, True), (1, 0, False), (4, 3, True), (0, 1, False), (3, 5, False)):
        y = np.arange(T * 3, dtype=np.float32).reshape(T, 3) * 0.3 - 0.4
        feeds = {"in_0": x, "in_1": y, "in_2": np.asarray(n, np.int32), "in_3": np.asarray(bool(p))}
        res = check_model_feeds(model, feeds, sigbase, dict(case, steer=[[T, n, p]]), acc)
        if not res:
            continue
        vs, nobs = res
        if acc:
            acc.case(key=("cf", digest([body, stacked]), T, n, p), nontrivial=bool(nobs and (T, n, p) != (2, 2, True)))
        out += vs
        if vs:
            break
    out += _postprocess_check(fn, specs, {}, sigbase, case, acc)
    return out


def check_hist(history, variant, acc=None):
    """Call-site histories of @onnx_function blocks (C07's grammar): the shared function bodies are observed per call site."""
    import jax
    from vf import jaxutil
    from vf.props import c07

    out = []
    fn = c07.build(history, variant)
    case = {"kind": "hist", "history": history, "variant": variant}
    gated = any(s[0] == "gate" for s in history)
    kw = {"input_params": {"double": True, "shift": False}} if gated else {}
    try:
        model = jaxutil.to_onnx(fn, [jax.ShapeDtypeStruct(("B", 4), np.float32)], **kw)
    except Exception:
        if acc:
            acc.tally("status", "hist_export_rejected")
            acc.case()
        return out
    sigbase = {"layer": "generated", "structure": "hist"}
    for B in (3, 1, 5):
        feeds = {"in_0": (np.arange(B * 4, dtype=np.float32).reshape(B, 4) * 0.37 - 1.1)}
        if gated:
            feeds.update({"double": np.asarray(True), "shift": np.asarray(B == 3)})
        res = check_model_feeds(model, feeds, sigbase, dict(case, B=B), acc)
        if not res:
            continue
        vs, nobs = res
        if acc:
            acc.case(key=("hist", digest([history, variant]), B), nontrivial=bool(nobs and B != 3))
        out += vs
        if vs:
            break
    return out


def check_prog(prog, acc=None):
    from vf import jaxutil, progen

    out = []
    fn = progen.build(prog)
    specs = progen.input_specs_for_export(prog)
    case = {"kind": "prog", "prog": prog}
    try:
        model = jaxutil.to_onnx(fn, specs)
    except Exception:
        if acc:
            acc.case()
        return out
    sigbase = {"layer": "generated", "structure": "prog"}
    sym = any(isinstance(d, str) for _, s in prog["inputs"] for d in s)
    for b in ((2, 3, 5) if sym else (3,)):
        rng = np.random.default_rng(17 + b)
        feeds = {}
        for i, (dt, shape) in enumerate(prog["inputs"]):
            shp = tuple(b if isinstance(d, str) else d for d in shape)
            if dt == progen.F:
                feeds[f"in_{i}"] = np.asarray(rng.standard_normal(shp) * 2).astype(np.float32)
            elif dt == progen.I:
                feeds[f"in_{i}"] = np.asarray(rng.integers(-4, 9, size=shp)).astype(np.int32)
            else:
                feeds[f"in_{i}"] = np.asarray(rng.integers(0, 2, size=shp)).astype(np.bool_)
        res = check_model_feeds(model, feeds, sigbase, dict(case, bindings=[b]), acc)
        if not res:
            continue
        vs, nobs = res
        if acc:
            acc.case(key=("prog", digest(prog["stmts"]), b), nontrivial=bool(nobs))
        out += vs
        if vs:
            break
    out += _postprocess_check(fn, specs, {}, sigbase, case, acc)
    return out


def shape_programs():
    """A fixed neighbourhood of shape-manipulating lowerings (they stamp annotations on helper intermediates)."""
    import jax.numpy as jnp
    from jax import lax

    P = []
    for gshape, dims in (((1, 5), (1, 2)), ((4, 1), (1, 2)), ((1, 1), (1, 2)), ((4, 5), (1, 2)), ((5,), (2,)), ((1,), (2,)), ((4,), (1,)), ((1, 4, 1), (0, 1, 2))):
        P.append((f"broadcast_in_dim{gshape}->{dims}", (lambda x, g, _d=dims: x * lax.broadcast_in_dim(g, x.shape, _d) + 1.0), [("B", 4, 5), gshape]))
    P.append(("broadcast_to_trailing", lambda x, g: x + jnp.broadcast_to(g, x.shape), [("B", 4, 5), (5,)]))
    P.append(("expand_squeeze", lambda x, g: jnp.squeeze(jnp.expand_dims(x, 1) * g.reshape(1, 1, 1, 5), axis=1), [("B", 4, 5), (5,)]))
    P.append(("reshape_merge_split", lambda x, g: jnp.reshape(jnp.reshape(x, (x.shape[0], 20)) * 2.0, (x.shape[0], 4, 5)) + g, [("B", 4, 5), (5,)]))
    P.append(("transpose_slice", lambda x, g: jnp.transpose(x, (0, 2, 1))[:, 1:4, :2] * g[:2], [("B", 4, 5), (5,)]))
    P.append(("concat_pad", lambda x, g: jnp.pad(jnp.concatenate([x, x * 2.0], axis=1), ((0, 0), (1, 0), (0, 2))) + 1.0, [("B", 4, 5), (5,)]))
    P.append(("reduce_keepdims_bcast", lambda x, g: x - jnp.mean(x, axis=(1, 2), keepdims=True) + jnp.max(x, axis=2, keepdims=True), [("B", 4, 5), (5,)]))
    P.append(("where_mask_bcast", lambda x, g: jnp.where(g > 0, x, -x) * jnp.where(x.sum(axis=2, keepdims=True) > 0, 1.0, 2.0), [("B", 4, 5), (5,)]))
    P.append(("take_along", lambda x, g: jnp.take(x, jnp.array([0, 2, 1]), axis=1) + jnp.take_along_axis(x, jnp.argsort(x, axis=2), axis=2)[:, :3, :], [("B", 4, 5), (5,)]))
    P.append(("tile_stack", lambda x, g: jnp.stack([jnp.tile(g, (2,))[:5] * x, x], axis=1).sum(axis=1), [("B", 4, 5), (5,)]))
    P.append(("matmul_bcast_batch", lambda x, g: jnp.matmul(x, jnp.ones((5, 3), x.dtype)) + g[:3], [("B", 4, 5), (5,)]))
    P.append(("cumsum_flip", lambda x, g: jnp.flip(jnp.cumsum(x, axis=1), axis=2) * g, [("B", 4, 5), (5,)]))
    return P


def check_shape_program(idx, acc=None):
    import jax
    from vf import jaxutil

    name, fn, shapes = shape_programs()[idx]
    specs = [jax.ShapeDtypeStruct(tuple(s), np.float32) for s in shapes]
    case = {"kind": "shapeprog", "idx": idx, "name": name}
    try:
        model = jaxutil.to_onnx(fn, specs)
    except Exception as e:
        if acc:
            acc.tally("status", "shapeprog_export_rejected")
            acc.case()
        return []
    out = []
    for b in (1, 2, 5):
        rng = np.random.default_rng(b)
        feeds = {f"in_{i}": rng.standard_normal(tuple(b if d == "B" else d for d in s)).astype(np.float32) for i, s in enumerate(shapes)}
        res = check_model_feeds(model, feeds, {"layer": "shapeprog", "program": name.split("(")[0]}, dict(case, bindings=[b]), acc)
        if not res:
            continue
        vs, nobs = res
        if acc:
            acc.case(key=("shapeprog", name, b), nontrivial=bool(nobs))
        out += vs
        if vs:
            break
    return out


def check_graph_spec(spec, acc=None):
    """Annotations of the *optimized* model of a generated ONNX graph must not contradict its runtime values."""
    from vf import graphgen, onnxutil

    model = graphgen.build_model(spec)
    feeds = graphgen.make_feeds(spec)
    try:
        import onnx

        onnx.checker.check_model(model, full_check=True)
        opt = onnxutil.optimize_proto(model)
    except Exception:
        if acc:
            acc.tally("status", "graph_invalid_or_optimizer_raised")
            acc.case()
        return []
    fired = opt.SerializeToString() != model.SerializeToString()
    res = check_model_feeds(opt, feeds, {"layer": "graph", "structure": "optimized_graph"}, {"kind": "graph", "spec": spec}, acc)
    if not res:
        return []
    vs, nobs = res
    if acc:
        acc.case(key=("graph", digest(spec)), nontrivial=bool(nobs and fired))
    return vs


def list_ids(_):
    from vf import catalog

    return [c["id"] for c in catalog.cases() if c["tc"].get("callable") is not None]


def plan(tier, seed):
    from vf import core

    res = list(core.run_pool("vf.props.c08", "list_ids", [{}], nproc=1))[0]
    if not res["ok"]:
        raise RuntimeError(res["tb"])
    ids = res["res"]
    rng = np.random.default_rng(seed)
    if tier == "quick":
        ids = [ids[i] for i in sorted(rng.choice(len(ids), size=min(200, len(ids)), replace=False).tolist())]
        nsh, budget = 16, 150
    else:
        nsh, budget = 64, 400
    shards = [{"kind": "catalog", "ids": ids[i::nsh], "budget_s": budget} for i in range(nsh)]
    shards += [{"kind": "generated", "shard": i, "seed": seed, "examples": 8 if tier == "quick" else 60} for i in range(8 if tier == "quick" else 32)]
    shards += [{"kind": "graphs", "shard": i, "seed": seed, "examples": 120 if tier == "quick" else 900} for i in range(8 if tier == "quick" else 32)]
    shards += [{"kind": "shapeprogs", "part": i, "parts": 4} for i in range(4)]
    return shards


def work(sh):
    import time

    from vf import core

    acc = Acc()
    if sh["kind"] == "catalog":
        t0 = time.monotonic()
        for k, cid in enumerate(sh["ids"]):
            if time.monotonic() - t0 > sh["budget_s"]:
                acc.inconclusive += len(sh["ids"]) - k
                break
            try:
                with core.time_limit(120):
                    vs = check_catalog(cid, acc)
            except core.CaseTimeout:
                acc.inconclusive += 1
                vs = []
            if not vs and len(acc.samples) < 1:
                acc.samples.append({"catalog_id": cid, "bindings": [2, 3, 5]})
            for v in vs:
                acc.violation(v["sig"], v["case"], v["detail"])
    elif sh["kind"] == "shapeprogs":
        n = len(shape_programs())
        for idx in range(sh["part"], n, sh["parts"]):
            vs = check_shape_program(idx, acc)
            for v in vs:
                acc.violation(v["sig"], v["case"], v["detail"])
        acc.samples.append({"structure": "shape_program", "names": [p[0] for p in shape_programs()][sh["part"]::sh["parts"]][:4], "bindings": [1, 2, 5]})
    elif sh["kind"] == "graphs":
        import hypothesis
        from hypothesis import HealthCheck, Phase, given, settings
        from vf import graphgen

        @hypothesis.seed(derive_seed(sh["seed"], "c08graphs", sh["shard"]))
        @settings(max_examples=sh["examples"], deadline=None, database=None, suppress_health_check=list(HealthCheck),
                  phases=[Phase.generate], report_multiple_bugs=False)
        @given(graphgen.graph_specs())
        def tg(spec):
            if spec is None:
                return
            vs = check_graph_spec(spec, acc)
            if not vs and len(acc.samples) < 1:
                acc.samples.append({"structure": "optimized_graph", "nodes": [[nd["op"], nd["i"], nd["o"]] for nd in spec["nodes"]][:10]})
            for v in vs:
                acc.violation(v["sig"], v["case"], v["detail"])

        tg()
    else:
        import hypothesis
        from hypothesis import HealthCheck, Phase, given, settings, strategies as st
        from vf import progen
        from vf.props import c06, c07

        @hypothesis.seed(derive_seed(sh["seed"], "c08gen", sh["shard"]))
        @settings(max_examples=sh["examples"], deadline=None, database=None, suppress_health_check=list(HealthCheck),
                  phases=[Phase.generate], report_multiple_bugs=False)
        @given(st.one_of(st.tuples(st.just("cf"), c06.body_strategy(2, unsupported_p=10**6), st.sampled_from([False, "xs", "len3"])),
                         st.tuples(st.just("prog"), progen.programs(max_stmts=7, symbolic=True), st.just(None)),
                         st.tuples(st.just("hist"), c07.history_strategy(), st.sampled_from(["fn", "uniq"]))))
        def t(c):
            vs = check_cf(c[1], c[2], acc) if c[0] == "cf" else (check_hist(c[1], c[2], acc) if c[0] == "hist" else check_prog(c[1], acc))
            if not vs and len(acc.samples) < 2:
                acc.samples.append({"structure": c[0], "program": str(c[1])[:240]})
            for v in vs:
                acc.violation(v["sig"], v["case"], v["detail"])

        t()
    return acc.to_dict()


def replay(case):
    if case["kind"] == "catalog":
        return check_catalog(case["id"], None, bindings=tuple(case.get("bindings", (2, 3, 5))))
    if case["kind"] == "cf":
        return check_cf(case["body"], case["stacked"], None)
    if case["kind"] == "hist":
        return check_hist(case["history"], case["variant"], None)
    if case["kind"] == "graph":
        return check_graph_spec(case["spec"], None)
    if case["kind"] == "shapeprog":
        return check_shape_program(case["idx"], None)
    return check_prog(case["prog"], None)
