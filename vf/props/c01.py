"""C01 — the exported model computes the same function as the JAX callable.

Layers: (A) catalog sweep with adversarial input pools, (B) Hypothesis-generated compositions,
(C) dense elementwise lattices.  Oracle: eager JAX (f32, plus f64 reference for the error band).
"""

from __future__ import annotations

import os

import numpy as np

from vf.core import Acc, derive_seed, digest

PROPERTY = "C01"
LEVEL = "exploration"
RULE = (
    "(A) registered metadata testcases enumerated from the working tree (quick: seeded stratified sample; thorough: all) x generated inputs "
    "(wide normal, adversarial pool incl. +-0, half-integers, tiny, 88, 1e4; integers in [-4,9)); inputs given as input_values are only rescaled "
    "by positive factors; (B) Hypothesis-generated well-typed programs over ~130 guarded ops (depth<=8, 1-3 inputs, ranks 0-3, f32/i32/bool); "
    "(C) dense lattices (all half-integers in [-6,6], powers of two, +-0, tiny, huge) for every unary/binary elementwise op and all int8xint8 pairs "
    "for integer ops. Oracle: ORT output vs eager JAX: equal count/shape, exact int/bool, floats within atol*scale+rtol*|ref64|+16*|ref32-ref64|. "
    "non-trivial = export succeeded, ORT ran, >=1 finite compared element and the input is not constant; distinct by (program/testcase, input digest)."
)
ASSUMPTIONS = [
    "eager JAX on CPU with the converter inactive is the reference; elements where JAX itself is non-finite are masked",
    "f64 JAX evaluation bounds the error JAX's f32 evaluation carries (K=16)",
    "ORT CPU, one thread, graph optimizations disabled",
    "periodic functions (sin, cos) are compared for |x| <= 1e5: beyond ~1e7 ORT's vectorised kernels have no accurate range reduction",
    "catalog entries flagged skip_numeric_validation by their authors are exported and loaded but not compared",
]


# --------------------------------------------------------------------------- programs (layer B)


def check_program(prog, feeds, localise=True):
    """Returns (status, detail, extra). status: ok/trivial/rejected/<violation kind>."""
    from vf import jaxutil, progen

    fn = progen.build(prog)
    try:
        ref32 = jaxutil.eager(fn, feeds)
    except Exception as e:
        return "jax_error", f"{type(e).__name__}: {str(e)[:200]}", None
    try:
        model = jaxutil.to_onnx(fn, progen.input_specs_for_export(prog))
    except Exception as e:
        return "rejected", f"{type(e).__name__}: {str(e)[:200]}", None
    try:
        got = jaxutil.run_model(model, feeds)
    except Exception as e:
        return "ort_error", f"{type(e).__name__}: {str(e)[:300]}", None
    ref64 = jaxutil.eager64(fn, feeds)
    st, d = jaxutil.compare_all(got, ref32, ref64)
    return st, d, None


def blame(prog, feeds):
    """First statement whose value already differs when promoted to the only output."""
    from vf import progen

    names = []
    for s in prog["stmts"]:
        if isinstance(s["o"], list):
            continue
        names.append((s["o"], s["op"] + (":" + s["kw"]["f"] if isinstance(s.get("kw", {}).get("f"), str) else "")))
    for o, label in names:
        sub = progen.prune(dict(prog, outputs=[o]))
        st, d, _ = check_program(sub, feeds, localise=False)
        if st not in ("ok", "trivial", "rejected", "jax_error"):
            return label, sub
    return "?", prog


def _label(s):
    return s["op"] + (":" + s["kw"]["f"] if isinstance(s.get("kw", {}).get("f"), str) else "")


def program_sig(layer, kind, sub, feeds, label=None):
    """Signature of a program-level violation: failing operator, what produced its first operand, input class."""
    stmts = sub["stmts"]
    if label is None:
        label = _label(stmts[-1]) if stmts else "?"
    sig = {"layer": layer, "kind": kind, "op": label, "input_class": input_class(sub, feeds)}
    if stmts:
        first = (stmts[-1].get("a") or [None])[0]
        prod = [s for s in stmts[:-1] if s["o"] == first]
        if prod:
            sig["after"] = _label(prod[0])
    return sig


def _neutralise(feeds, cls):
    out = []
    changed = False
    for f in feeds:
        f = np.asarray(f)
        if f.dtype.kind != "f":
            if cls == "negative_int" and f.dtype.kind == "i" and (f < 0).any():
                out.append(np.abs(f))
                changed = True
            elif cls == "large_int" and f.dtype.kind == "i" and (np.abs(f.astype(np.int64)) > 100).any():
                out.append(np.clip(f, -100, 100))
                changed = True
            else:
                out.append(f)
            continue
        g = f.copy()
        if cls == "negative_zero":
            m = (g == 0) & np.signbit(g)
            g[m] = 0.0
        elif cls == "half_integer":
            m = np.isfinite(g) & (np.abs(g - np.trunc(g)) == 0.5)
            g[m] = g[m] + 0.015625
        elif cls == "large_magnitude":
            m = np.abs(g) >= 40
            g[m] = np.clip(g[m], -8, 8)
        elif cls == "tiny_magnitude":
            m = (np.abs(g) < 1e-2) & (g != 0)
            g[m] = 0.0
        elif cls == "zero":
            m = g == 0
            g[m] = 0.75
        else:
            m = np.zeros(g.shape, bool)
        changed = changed or bool(np.any(m))
        out.append(g)
    return out, changed


INPUT_CLASSES = ["negative_zero", "half_integer", "large_magnitude", "tiny_magnitude", "zero", "negative_int", "large_int"]


def input_class(prog, feeds):
    """Names the first input class whose neutralisation makes the divergence disappear ('general' otherwise)."""
    for cls in INPUT_CLASSES:
        f2, changed = _neutralise(feeds, cls)
        if not changed:
            continue
        st_, _, _ = check_program(prog, f2)
        if st_ in ("ok", "trivial"):
            return cls
    return "general"


def _feeds_json(feeds):
    from vf import onnxutil

    return [onnxutil.arr_to_json(f) for f in feeds]


def _work_programs(sh, acc):
    import hypothesis
    from hypothesis import HealthCheck, Phase, given, settings, strategies as st
    from vf import progen

    @st.composite
    def cases(draw):
        prog = draw(progen.programs(max_stmts=8))
        feeds = [progen.draw_inputs(draw, prog) for _ in range(2)]
        return prog, feeds

    @hypothesis.seed(derive_seed(sh["seed"], "c01prog", sh["shard"]))
    @settings(max_examples=sh["examples"], deadline=None, database=None, suppress_health_check=list(HealthCheck),
              phases=[Phase.generate], report_multiple_bugs=False)
    @given(cases())
    def t(c):
        prog, feedsets = c
        for op in set(progen.ops_of(prog)):
            acc.tally("ops", op)
        for feeds in feedsets:
            st_, d, _ = check_program(prog, feeds)
            key = digest([prog["stmts"], prog["outputs"], [f.tobytes().hex()[:64] for f in feeds]])
            const_in = all(f.size <= 1 or np.all(f == f.reshape(-1)[0]) for f in feeds)
            acc.case(key=key, nontrivial=(st_ == "ok" and not const_in))
            acc.tally("program_status", st_)
            if st_ == "rejected":
                acc.tally("rejected_reasons", d[:90])
                break
            if st_ in ("ok", "trivial"):
                if st_ == "ok" and len(acc.samples) < 3:
                    acc.samples.append({"layer": "program", "stmts": [[s["op"], s.get("kw", {}).get("f", ""), s.get("a", [])] for s in prog["stmts"]][:10],
                                        "inputs": prog["inputs"], "first_input_values": np.asarray(feeds[0]).reshape(-1)[:6].tolist()})
                continue
            if st_ == "jax_error":
                acc.tally("jax_error", d[:90])
                break
            label, sub = blame(prog, feeds)
            acc.violation(program_sig("program", st_, sub, feeds, label),
                          {"kind": "program", "prog": sub, "feeds": _feeds_json(feeds)}, d)
            break

    t()


# --------------------------------------------------------------------------- lattices (layer C)


def lattice_f():
    half = np.arange(-6.0, 6.5, 0.5)
    pw = np.array([2.0**k for k in range(-8, 9)] + [-(2.0**k) for k in range(-8, 9)])
    special = np.array([0.0, -0.0, 1e-3, -1e-3, 1e-20, -1e-20, 1e-38, 88.0, -88.0, 40.0, -40.0, 1e4, -1e4, 0.49999997, -0.49999997,
                        1.4999999, 2.5000002, 16777216.0, 3.3e38, -3.3e38, 0.1, -0.1, 0.3, 0.7, 100.5])
    return np.unique(np.concatenate([half, pw, special])).astype(np.float32)


def _work_lattice(sh, acc):
    from vf import jaxutil, progen

    lat = lattice_f()
    lat = np.concatenate([lat, np.array([-0.0], np.float32)])
    for name in sh["unary"]:
        pts = lat
        if name in ("sin", "cos"):
            # ORT's vectorised Sin/Cos kernels lose all accuracy beyond ~1e7 (cos(16777216) = -0.94 instead of -0.33): that is the
            # runtime's range reduction, not the exported graph (a single Cos node), so periodic functions are compared for |x| <= 1e5
            pts = lat[np.abs(lat) <= 1e5]
            acc.tally("lattice_domain", f"un_f:{name}: |x| <= 1e5 ({int(lat.size - pts.size)} points dropped)")
        prog = {"inputs": [[progen.F, [int(pts.size)]]], "stmts": [{"o": "v1", "op": "un_f", "a": ["x0"], "kw": {"f": name}}], "outputs": ["v1"]}
        _lattice_case(acc, prog, [pts], f"un_f:{name}")
    if sh["binary"]:
        a, b = np.meshgrid(lat, lat)
        a, b = a.reshape(-1).astype(np.float32), b.reshape(-1).astype(np.float32)
        for name in sh["binary"]:
            prog = {"inputs": [[progen.F, [int(a.size)]], [progen.F, [int(b.size)]]],
                    "stmts": [{"o": "v1", "op": "bin_f", "a": ["x0", "x1"], "kw": {"f": name}}], "outputs": ["v1"]}
            _lattice_case(acc, prog, [a, b], f"bin_f:{name}")
    if sh["int_binary"]:
        v = np.arange(-128, 128, dtype=np.int32)
        extra = np.array([-(2**31), 2**31 - 1, 2**16, -(2**16), 65535, 32767], dtype=np.int32)
        v = np.concatenate([v, extra])
        a, b = np.meshgrid(v, v)
        a, b = a.reshape(-1).astype(np.int32), b.reshape(-1).astype(np.int32)
        for name in sh["int_binary"]:
            prog = {"inputs": [[progen.I, [int(a.size)]], [progen.I, [int(b.size)]]],
                    "stmts": [{"o": "v1", "op": "bin_i", "a": ["x0", "x1"], "kw": {"f": name}}], "outputs": ["v1"]}
            _lattice_case(acc, prog, [a, b], f"bin_i:{name}")
    for name in sh.get("int_unary", []):
        v = np.concatenate([np.arange(-130, 131, dtype=np.int32), np.array([-(2**31) + 1, 2**31 - 1], np.int32)])
        prog = {"inputs": [[progen.I, [int(v.size)]]], "stmts": [{"o": "v1", "op": "un_i", "a": ["x0"], "kw": {"f": name}}], "outputs": ["v1"]}
        _lattice_case(acc, prog, [v], f"un_i:{name}")


def _lattice_case(acc, prog, feeds, label):
    st_, d, _ = check_program(prog, feeds)
    acc.case(key=("lattice", label), nontrivial=(st_ == "ok"), n=int(feeds[0].size))
    acc.tally("lattice_status", f"{label}={st_}")
    if st_ == "ok" and len(acc.samples) < 2:
        acc.samples.append({"layer": "lattice", "op": label, "points": int(feeds[0].size)})
    if st_ not in ("ok", "trivial", "rejected", "jax_error"):
        # shrink the lattice to one failing point for the replay
        small = _one_failing_point(prog, feeds)
        acc.violation({"layer": "lattice", "kind": st_, "op": label, "input_class": input_class(small[0], small[1])},
                      {"kind": "program", "layer": "lattice", "prog": small[0], "feeds": _feeds_json(small[1])}, d)
    elif st_ == "rejected":
        acc.tally("rejected_reasons", f"{label}: {d[:80]}")


def _one_failing_point(prog, feeds):
    n = feeds[0].size
    lo, hi = 0, n
    # bisect on a contiguous window that still fails (bounded number of exports)
    cur = (prog, feeds)
    for _ in range(12):
        if hi - lo <= 1:
            break
        mid = (lo + hi) // 2
        for a, b in ((lo, mid), (mid, hi)):
            sub = [f[a:b] for f in feeds]
            p2 = dict(prog, inputs=[[dt, [b - a]] for dt, _ in prog["inputs"]])
            st_, _, _ = check_program(p2, sub)
            if st_ not in ("ok", "trivial", "rejected", "jax_error"):
                lo, hi = a, b
                cur = (p2, sub)
                break
        else:
            break
    return cur


# --------------------------------------------------------------------------- catalog (layer A)


def check_catalog_case(cid, modes, acc=None, double=False):
    """Returns list of violation dicts."""
    import jax.numpy as jnp
    from vf import catalog, jaxutil, onnxutil

    out = []
    case = catalog.by_id(cid)
    if case is None:
        return out
    tc = case["tc"]
    p = catalog.prepare(case, double=double)
    if p is None:
        if acc:
            acc.tally("catalog_status", "not_applicable")
        return out
    sigbase = {"layer": "catalog", "component": f"{case['context']}/{case['component']}", "testcase": tc.get("testcase")}
    try:
        with jaxutil.x64(double):
            model = jaxutil.to_onnx(p.fn, p.specs, **p.kw)
    except Exception as e:
        if acc:
            acc.tally("catalog_status", "export_error")
        out.append({"sig": dict(sigbase, kind="export_error_on_registered"), "case": {"kind": "catalog", "id": cid, "modes": modes, "double": double},
                    "detail": f"{type(e).__name__}: {str(e)[:300]}"})
        return out
    if model.ByteSize() > 60_000_000:
        if acc:
            acc.tally("catalog_status", "too_big_skipped")
        return out
    try:
        sess = onnxutil.session(model)
    except Exception as e:
        msg = str(e)
        if acc:
            acc.tally("catalog_status", "ort_load_error")
            acc.tally("ort_load_errors", msg[:100])
        # C03 owns loadability; here it only means no numeric comparison is possible
        return out
    if tc.get("skip_numeric_validation"):
        if acc:
            acc.tally("catalog_status", "skip_numeric_validation")
        return out
    # data-dependent loops may not terminate (or run for ages) on inputs far from the authors' range, and an eager JAX
    # while_loop cannot be interrupted: such callables only see the authors' values / the benign pool (catalog.feeds)
    has_while = catalog.has_data_dependent_loop(p)
    if has_while:
        # authors' exact values when they give some (mode 0 == scale 1.0), the benign pool otherwise
        modes = [0] if p.base is not None else [3]
        if acc:
            acc.tally("catalog_status", "data_dependent_loop(benign_inputs_only)")
    if "random" in str(case["context"]).lower():
        # sampling ops are only comparable on the authors' degenerate inputs (p in {0,1}, fixed keys): other values draw from different RNG streams
        modes = [m for m in modes if m == 0] or [0]
    feed_sets = []
    author_int_range = "shift" in str(case["component"]).lower()  # shift counts outside [0, bits) are implementation-defined in JAX/XLA
    for mode in modes:
        rng = np.random.default_rng(1000 * mode + 7)
        fv = catalog.feeds(p, rng, mode)
        if author_int_range and p.base is None:
            fv = [catalog.draw_value(np.random.default_rng(1000 * mode + 11 + i), sh_, dt_, 0) if np.dtype(dt_).kind in "iu" else f
                  for i, (f, sh_, dt_) in enumerate(zip(fv, p.shapes, p.dtypes))]
        feed_sets.append((mode, fv))
    for k, (label, fv) in enumerate(catalog.structural_variants(p)):
        feed_sets.append((100 + k, fv))
    for mode, fds in feed_sets:
        try:
            with jaxutil.x64(double):
                r32 = jaxutil.flatten(p.fn(*[jnp.asarray(f) for f in fds], **p.params))
        except Exception as e:
            if acc:
                acc.tally("catalog_status", "jax_error")
            continue
        try:
            got = sess.run(None, catalog.ort_feeds(p, sess, fds))
        except Exception as e:
            msg = str(e)
            # drawn values used as indices (integer inputs, or float token ids that the callable casts) may leave [0, extent)
            wide_int = mode in (1, 2) and p.base is None
            index_node = any(k in msg for k in ("Gather", "Scatter", "OneHot", "Slice", "indices", "out of data bounds", "out of range", "out of bounds"))
            if isinstance(e, MemoryError) or not msg.strip() or any(k in msg for k in ("bad allocation", "bad_alloc", "Failed to allocate", "out of memory")):
                # resource exhaustion under 16 parallel workers says nothing about the model
                if acc:
                    acc.inconclusive += 1
                    acc.tally("catalog_status", "resource_exhausted(inconclusive)")
                continue
            if wide_int and index_node:
                # an index beyond the extent: JAX clamps by convention, the callable's domain is [0, extent)
                if acc:
                    acc.tally("catalog_status", "index_out_of_domain")
                continue
            if acc:
                acc.tally("catalog_status", "ort_run_error")
            out.append({"sig": dict(sigbase, kind="ort_runtime_error"), "case": {"kind": "catalog", "id": cid, "modes": [mode], "double": double},
                        "detail": f"mode {mode}: {str(e)[:300]}"})
            continue
        r64 = None
        if not double and not tc.get("disable_float64_test") and not tc.get("run_only_f32_variant"):
            try:
                with jaxutil.x64(True):
                    fn64 = p.factory.with_dtype(jnp.float64).instantiate() if p.factory is not None else p.fn
                    f64 = [jnp.asarray(f.astype(np.float64) if f.dtype.kind == "f" else (f.astype(np.complex128) if f.dtype.kind == "c" else f)) for f in fds]
                    r64 = jaxutil.flatten(fn64(*f64, **p.params))
                if len(r64) != len(r32):
                    r64 = None
            except Exception:
                r64 = None
        got = catalog.unpermute_outputs(p, got)
        # complex results come back as trailing pairs
        got2 = []
        for g, e in zip(got, r32):
            if e.dtype.kind == "c" and g.dtype.kind != "c" and g.shape == e.shape + (2,):
                g = g[..., 0] + 1j * g[..., 1]
            got2.append(g)
        if len(got) != len(r32):
            got2 = got
        st_, d = jaxutil.compare_all(got2, r32, r64)
        if acc:
            const_in = all(np.asarray(f).size <= 1 or np.all(np.asarray(f) == np.asarray(f).reshape(-1)[0]) for f in fds) if fds else True
            acc.case(key=("catalog", cid, mode, double), nontrivial=(st_ == "ok" and not const_in))
            acc.tally("catalog_status", st_)
            acc.tally("catalog_context", str(case["context"]))
            if st_ == "ok" and len(acc.samples) < 3:
                acc.samples.append({"layer": "catalog", "id": cid, "mode": mode, "first_input": (np.asarray(fds[0]).reshape(-1)[:5].tolist() if fds else [])})
        if st_ not in ("ok", "trivial"):
            out.append({"sig": dict(sigbase, kind=st_, input_class=(["normal", "pool_small", "pool_wide", "benign"][mode] if p.base is None else f"scale{mode}") if mode < 100 else "structural_variant"),
                        "case": {"kind": "catalog", "id": cid, "modes": [mode], "double": double}, "detail": f"mode {mode}: {d}"})
    return out


def _work_catalog(sh, acc):
    import time

    from vf import core

    t_start = time.monotonic()
    for k, cid in enumerate(sh["ids"]):
        if time.monotonic() - t_start > sh.get("budget_s", 1e9):
            acc.inconclusive += len(sh["ids"]) - k
            acc.tally("catalog_status", "not_reached_within_budget", len(sh["ids"]) - k)
            break
        t0 = time.monotonic()
        if os.environ.get("VERIF_PROGRESS"):  # debugging aid: which case a straggling worker is in
            with open(f"{os.environ['VERIF_PROGRESS']}.cur.{os.getpid()}", "w") as fh:
                fh.write(f"{cid} double={sh.get('double', False)}\n")
        try:
            with core.time_limit(sh.get("case_limit_s", 120)):
                vs = check_catalog_case(cid, sh["modes"], acc, double=sh.get("double", False))
        except core.CaseTimeout:
            acc.inconclusive += 1
            acc.tally("catalog_status", "case_time_limit_hit(inconclusive)")
            acc.stats.setdefault("time_limited_cases", []).append(cid)
            vs = []
        for v in vs:
            acc.violation(v["sig"], v["case"], v["detail"])
        acc.timed(cid + (" [f64]" if sh.get("double") else ""), time.monotonic() - t0)


# --------------------------------------------------------------------------- parametrised modules (layer D)


def module_strategy():
    from hypothesis import strategies as st

    eps = st.sampled_from([1e-6, 1e-5, 1e-3, 1e-2])
    b = st.booleans()
    return st.one_of(
        st.tuples(st.just("nnx.LayerNorm"), eps, b, b).map(list),
        st.tuples(st.just("nnx.RMSNorm"), eps, b).map(list),
        st.tuples(st.just("nnx.BatchNorm"), eps, b, b).map(list),
        st.tuples(st.just("nnx.GroupNorm"), eps, st.sampled_from([1, 2, 4]), b).map(list),
        st.tuples(st.just("nnx.Linear"), b, st.sampled_from([1, 3])).map(list),
        st.tuples(st.just("nnx.Conv"), st.sampled_from([1, 2, 3]), st.sampled_from([1, 2]), st.sampled_from(["SAME", "VALID"]), st.sampled_from([1, 2]), b).map(list),
        st.tuples(st.just("nnx.pool"), st.sampled_from(["avg", "max"]), st.sampled_from([2, 3]), st.sampled_from([1, 2]), st.sampled_from(["SAME", "VALID"])).map(list),
        st.tuples(st.just("eqx.LayerNorm"), eps, b, b).map(list),
        st.tuples(st.just("eqx.RMSNorm"), eps, b, b).map(list),
        st.tuples(st.just("eqx.GroupNorm"), eps, st.sampled_from([1, 2]), b).map(list),
        st.tuples(st.just("eqx.Linear"), b, st.sampled_from([1, 3])).map(list),
        st.tuples(st.just("eqx.Conv2d"), st.sampled_from([1, 3]), st.sampled_from([1, 2]), st.sampled_from([0, 1]), b).map(list),
    )


def build_module(spec, seed):
    """Returns (callable, input shape)."""
    import equinox as eqx
    import jax
    from flax import nnx

    k = spec[0]
    if k == "nnx.LayerNorm":
        m = nnx.LayerNorm(4, epsilon=spec[1], use_bias=spec[2], use_scale=spec[3], rngs=nnx.Rngs(seed))
        return m, (3, 4)
    if k == "nnx.RMSNorm":
        return nnx.RMSNorm(4, epsilon=spec[1], use_scale=spec[2], rngs=nnx.Rngs(seed)), (3, 4)
    if k == "nnx.BatchNorm":
        return nnx.BatchNorm(4, epsilon=spec[1], use_bias=spec[2], use_scale=spec[3], use_running_average=True, rngs=nnx.Rngs(seed)), (3, 4)
    if k == "nnx.GroupNorm":
        return nnx.GroupNorm(4, num_groups=spec[2], epsilon=spec[1], use_bias=spec[3], rngs=nnx.Rngs(seed)), (3, 4)
    if k == "nnx.Linear":
        return nnx.Linear(4, spec[2], use_bias=spec[1], rngs=nnx.Rngs(seed)), (3, 4)
    if k == "nnx.Conv":
        return nnx.Conv(2, 3, kernel_size=(spec[1], spec[1]), strides=spec[2], padding=spec[3], kernel_dilation=spec[4], use_bias=spec[5], rngs=nnx.Rngs(seed)), (1, 6, 6, 2)
    if k == "nnx.pool":
        # looked up at call time, as user code does: the converter patches nnx.avg_pool / nnx.max_pool while tracing
        return (lambda x: getattr(nnx, spec[1] + "_pool")(x, window_shape=(spec[2], spec[2]), strides=(spec[3], spec[3]), padding=spec[4])), (1, 6, 6, 2)
    key = jax.random.PRNGKey(seed)
    if k == "eqx.LayerNorm":
        return eqx.nn.LayerNorm(4, eps=spec[1], use_weight=spec[2], use_bias=spec[3]), (4,)
    if k == "eqx.RMSNorm":
        return eqx.nn.RMSNorm(4, eps=spec[1], use_weight=spec[2], use_bias=spec[3]), (4,)
    if k == "eqx.GroupNorm":
        return eqx.nn.GroupNorm(groups=spec[2], channels=4, eps=spec[1], channelwise_affine=spec[3]), (4, 3)
    if k == "eqx.Linear":
        return eqx.nn.Linear(4, spec[2], use_bias=spec[1], key=key), (4,)
    if k == "eqx.Conv2d":
        return eqx.nn.Conv2d(2, 3, kernel_size=spec[1], stride=spec[2], padding=spec[3], use_bias=spec[4], key=key), (2, 6, 6)
    raise KeyError(k)


def check_module(spec, seed, scale, acc=None):
    import jax.numpy as jnp
    from vf import jaxutil

    try:
        fn, shape = build_module(spec, seed)
    except Exception as e:
        if acc:
            acc.tally("module_status", f"{spec[0]}:constructor_rejects")
        return []
    rng = np.random.default_rng(seed)
    x = (rng.standard_normal(shape) * scale).astype(np.float32)
    if scale < 0.01:
        x = x + np.float32(0.5)  # tiny variance around an offset: what an epsilon is for
    case = {"kind": "module", "spec": spec, "seed": seed, "scale": scale}
    try:
        ref = jaxutil.flatten(fn(jnp.asarray(x)))
    except Exception:
        if acc:
            acc.tally("module_status", f"{spec[0]}:jax_rejects")
        return []
    try:
        m = jaxutil.to_onnx(fn, [shape])
    except Exception as e:
        if acc:
            acc.tally("module_status", f"{spec[0]}:export_rejected")
            acc.tally("rejected_reasons", f"{spec[0]}: {type(e).__name__}: {str(e)[:70]}")
            acc.case()
        return []
    try:
        got = jaxutil.run_model(m, [x])
    except Exception as e:
        return [{"sig": {"layer": "module", "module": spec[0], "kind": "ort_error"}, "case": case, "detail": str(e)[:250]}]
    ref64 = None
    try:
        with jaxutil.x64(True):
            ref64 = jaxutil.flatten(fn(jnp.asarray(x.astype(np.float64))))
    except Exception:
        ref64 = None
    st_, d = jaxutil.compare_all(got, ref, ref64 if ref64 is not None and len(ref64) == len(ref) and all(np.asarray(r).dtype == np.float64 for r in ref64) else None)
    if acc:
        acc.case(key=("module", digest(spec), seed, scale), nontrivial=(st_ == "ok"))
        acc.tally("module_status", f"{spec[0]}:{st_}")
        if st_ == "ok" and len(acc.samples) < 4:
            acc.samples.append({"layer": "module", "spec": spec, "input_scale": scale})
    if st_ not in ("ok", "trivial"):
        cls = "tiny_variance" if scale < 0.01 else ("large" if scale > 10 else "normal")
        return [{"sig": {"layer": "module", "module": spec[0], "kind": st_, "input_class": cls}, "case": case, "detail": f"{spec}: {d}"}]
    return []


def module_specs(seed, tier):
    """Enumerates the discrete hyper-parameter product (booleans seeded in quick, full product in thorough)."""
    import itertools

    rng = np.random.default_rng(seed)
    eps = [1e-6, 1e-5, 1e-3, 1e-2]
    bools = [False, True]

    def bb(n):
        return list(itertools.product(bools, repeat=n)) if tier == "thorough" else [tuple(bool(rng.integers(0, 2)) for _ in range(n))]

    out = []
    for e in eps:
        for b in bb(2):
            out.append(["nnx.LayerNorm", e, b[0], b[1]])
            out.append(["nnx.BatchNorm", e, b[0], b[1]])
            out.append(["eqx.LayerNorm", e, b[0], b[1]])
            out.append(["eqx.RMSNorm", e, b[0], b[1]])
        for b in bb(1):
            out.append(["nnx.RMSNorm", e, b[0]])
            for g in ([1, 2, 4] if tier == "thorough" else [int(rng.choice([1, 2, 4]))]):
                out.append(["nnx.GroupNorm", e, g, b[0]])
            for g in ([1, 2] if tier == "thorough" else [int(rng.choice([1, 2]))]):
                out.append(["eqx.GroupNorm", e, g, b[0]])
    for b in bools:
        for m in (1, 3):
            out.append(["nnx.Linear", b, m])
            out.append(["eqx.Linear", b, m])
    for k, st_, pad, dil in itertools.product([1, 2, 3], [1, 2], ["SAME", "VALID"], [1, 2]):
        for b in bb(1):
            out.append(["nnx.Conv", k, st_, pad, dil, b[0]])
    for kind, w, st_, pad in itertools.product(["avg", "max"], [2, 3], [1, 2], ["SAME", "VALID"]):
        out.append(["nnx.pool", kind, w, st_, pad])
    for k, st_, pad in itertools.product([1, 3], [1, 2], [0, 1]):
        for b in bb(1):
            out.append(["eqx.Conv2d", k, st_, pad, b[0]])
    return out


def _work_modules_enum(sh, acc):
    for spec in sh["specs"]:
        for scale in (1e-3, 1.0, 30.0):
            for v in check_module(spec, sh["seed"] % 7, scale, acc):
                acc.violation(v["sig"], v["case"], v["detail"])


def _work_modules(sh, acc):
    import hypothesis
    from hypothesis import HealthCheck, Phase, given, settings, strategies as st

    @hypothesis.seed(derive_seed(sh["seed"], "c01mod", sh["shard"]))
    @settings(max_examples=sh["examples"], deadline=None, database=None, suppress_health_check=list(HealthCheck),
              phases=[Phase.generate], report_multiple_bugs=False)
    @given(module_strategy(), st.integers(0, 5))
    def t(spec, seed):
        for scale in (1e-3, 1.0, 30.0):  # tiny variance / ordinary / large: every drawn configuration sees all three
            for v in check_module(spec, seed, scale, acc):
                acc.violation(v["sig"], v["case"], v["detail"])

    t()


# --------------------------------------------------------------------------- plan / dispatch


def plan(tier, seed):
    from vf import progen

    shards = []
    n = 16 if tier == "quick" else 48
    ex = 14 if tier == "quick" else 90
    for i in range(n):
        shards.append({"kind": "programs", "shard": i, "seed": seed, "examples": ex})
    specs = module_specs(seed, tier)
    nm = 8 if tier == "quick" else 16
    for i in range(nm):
        shards.append({"kind": "modules", "specs": specs[i::nm], "seed": seed})
    un = progen.UN_F_NAMES
    bi = progen.BIN_F_NAMES
    bint = progen.BIN_I_NAMES
    if tier == "quick":
        # a seeded third of the lattice ops per run; thorough covers all
        rng = np.random.default_rng(seed)
        un = list(rng.permutation(un)[:14])
        bi = list(rng.permutation(bi)[:5])
        bint = list(rng.permutation(bint)[:5])
    for i in range(0, len(un), 7):
        shards.append({"kind": "lattice", "unary": list(un[i:i + 7]), "binary": [], "int_binary": []})
    for b in bi:
        shards.append({"kind": "lattice", "unary": [], "binary": [b], "int_binary": []})
    for b in bint:
        shards.append({"kind": "lattice", "unary": [], "binary": [], "int_binary": [b]})
    shards.append({"kind": "lattice", "unary": [], "binary": [], "int_binary": [], "int_unary": progen.UN_I_NAMES})
    return expand(shards, tier, seed)


def work(sh):
    acc = Acc()
    if sh["kind"] == "programs":
        _work_programs(sh, acc)
    elif sh["kind"] == "lattice":
        _work_lattice(sh, acc)
    elif sh["kind"] == "catalog":
        _work_catalog(sh, acc)
    elif sh["kind"] == "modules":
        _work_modules_enum(sh, acc)
    return acc.to_dict()


def expand(shards, tier, seed):
    """Adds the catalog shards (ids are listed in a worker so the parent never imports jax)."""
    from vf import core

    res = list(core.run_pool("vf.props.c01", "list_ids", [{}], nproc=1))[0]
    if not res["ok"]:
        raise RuntimeError(res["tb"])
    ids = res["res"]
    rng = np.random.default_rng(seed)
    if tier == "quick":
        pick = sorted(rng.choice(len(ids), size=min(288, len(ids)), replace=False).tolist())
        ids = [ids[i] for i in pick]
        modes = [0, 2]
        nsh = 16
    else:
        modes = [0, 1, 2]
        nsh = 64
    out = list(shards)
    budget = 150 if tier == "quick" else 400
    cat = [{"kind": "catalog", "ids": ids[i::nsh], "modes": modes, "budget_s": budget} for i in range(nsh)]
    if tier == "thorough":
        cat += [{"kind": "catalog", "ids": ids[i::nsh], "modes": [0, 2], "double": True, "budget_s": budget} for i in range(nsh)]
    return cat + out


def list_ids(_):
    from vf import catalog

    return [c["id"] for c in catalog.cases()]


def replay(case):
    from vf import onnxutil

    if case.get("kind") == "catalog":
        return check_catalog_case(case["id"], case["modes"], None, double=case.get("double", False))
    if case.get("kind") == "module":
        return check_module(case["spec"], case["seed"], case["scale"], None)
    feeds = [onnxutil.arr_from_json(f) for f in case["feeds"]]
    st_, d, _ = check_program(case["prog"], feeds)
    if st_ in ("ok", "trivial", "rejected", "jax_error"):
        return []
    return [{"sig": program_sig(case.get("layer", "program"), st_, case["prog"], feeds), "case": case, "detail": d}]
